------------------------------- MODULE RegSeq -------------------------------
(***************************************************************************)
(* Layer B - the descriptor registry of internal/reflect as ONE SEQUENTIAL *)
(* MACHINE, and the replay of its recorded hook events.                    *)
(*                                                                         *)
(* Everything createStructDesc does happens under sdsmu, so the events of  *)
(* one lock section (lock, pf = prefetch-cache insert, link = nested       *)
(* descriptor linked, store = table store, rollback, unlock) are a         *)
(* deterministic function of                                               *)
(*    - the registry state: prefetch cache, linked type nodes, table       *)
(*    - the type graph (nested struct nodes in field-id order, a map's key *)
(*      before its value) - data, taken from Defs                          *)
(*    - which struct types the resolver accepts - NOT known to this model: *)
(*      inferred from the trace (a pf event = accepted, a failure without  *)
(*      it = rejected) and required to stay the same for the whole process *)
(* Registry.tla explores the interleavings of goroutines around these      *)
(* sections; this module pins down what one section does, so that the      *)
(* recorded events of EVERY first use in EVERY check are compared with the *)
(* model (Api!JReg).  A difference is MODEL-DRIFT (a lead), never a        *)
(* verdict: the verdicts come from what the calls return.                  *)
(*                                                                         *)
(* A type node is <<struct name, is pointer>>: the Go types S and *S have  *)
(* separate cache entries, type nodes and table entries.                   *)
(***************************************************************************)
EXTENDS Schema

RECURSIVE NodesOfT(_)
NodesOfT(t) ==
  IF "k" \notin DOMAIN t THEN <<>>
  ELSE IF t.k = "struct" THEN << <<t.s, t.ptr>> >>
  ELSE IF t.k = "map" THEN NodesOfT(t.kt) \o NodesOfT(t.vt)
  ELSE IF t.k \in ListKinds THEN NodesOfT(t.e)
  ELSE <<>>

\* the struct-typed nodes the prefetch of struct s visits, in order
NestSeq(s) ==
  IF s \notin DOMAIN Defs THEN <<>>
  ELSE LET ff == FieldsOf(s) IN Flat([i \in 1..Len(ff) |-> NodesOfT(ff[i].t)])

RegInit(pe) == [pe |-> pe, rs |-> -1, lost |-> FALSE, cache |-> {}, linked |-> {}, table |-> {}, good |-> {}, bad |-> {}]

EvNode(e) == <<e.s, e.p>>
IsEv(evs, i, k) == i <= Len(evs) /\ evs[i].k = k

\* ---- one build (newStructDescAndPrefetch) ------------------------------------------------------
\* c: [cache, linked, good, bad, jp, jl]  (jp / jl: the journals of the section; jl is a sequence: a node that
\* gets linked inside its own build - a cycle - is linked, and journalled, a second time by the outer level)
\* result: [ok, drift, c, i]   ok = the build succeeded; drift = the events are not what the model does
RECURSIVE RBuild(_, _, _, _), RNest(_, _, _, _, _)
RBuild(nd, c, evs, i) ==
  IF nd \in c.cache THEN [ok |-> TRUE, drift |-> FALSE, c |-> c, i |-> i]
  ELSE IF IsEv(evs, i, "pf") /\ EvNode(evs[i]) = nd THEN
       \* the resolver accepted the struct: cache it, journal it, then its nested types
       LET c1 == [c EXCEPT !.cache = @ \cup {nd}, !.jp = @ \cup {nd}, !.good = @ \cup {nd[1]}]
           r == RNest(NestSeq(nd[1]), 1, c1, evs, i + 1) IN
       IF nd[1] \in c.bad THEN [ok |-> FALSE, drift |-> TRUE, c |-> c, i |-> i]     \* rejected before, accepted now
       ELSE IF r.ok \/ r.drift THEN r
       ELSE [r EXCEPT !.c.cache = @ \ {nd}]                                          \* a nested build failed: own entry deleted
  ELSE \* no insert: the resolver rejected the struct itself
       IF nd[1] \in c.good THEN [ok |-> FALSE, drift |-> TRUE, c |-> c, i |-> i]     \* accepted before, rejected now
       ELSE [ok |-> FALSE, drift |-> FALSE, c |-> [c EXCEPT !.bad = @ \cup {nd[1]}], i |-> i]

RNest(ns, k, c, evs, i) ==
  IF k > Len(ns) THEN [ok |-> TRUE, drift |-> FALSE, c |-> c, i |-> i]
  ELSE IF ns[k] \in c.linked THEN RNest(ns, k + 1, c, evs, i)                        \* fetchStructDesc: t.Sd != nil
  ELSE LET r == RBuild(ns[k], c, evs, i) IN
       IF ~r.ok THEN r
       ELSE IF IsEv(evs, r.i, "link") /\ EvNode(evs[r.i]) = ns[k]
            THEN RNest(ns, k + 1, [r.c EXCEPT !.linked = @ \cup {ns[k]}, !.jl = Append(@, ns[k])], evs, r.i + 1)
            ELSE [ok |-> FALSE, drift |-> TRUE, c |-> r.c, i |-> r.i]

\* ---- one lock section: evs[i] is the lock event ---------------------------------------------------
\* result: [rg, i (first event after the section), drift, kind]
Section(rg, evs, i) ==
  LET top == <<evs[i].s, FALSE>>
      Lost(why) == [rg |-> [rg EXCEPT !.lost = TRUE], i |-> Len(evs) + 1, drift |-> TRUE, kind |-> why] IN
  IF evs[i].s = "" THEN
       \* a type outside Defs (the harness's own): not modelled; skip to its unlock
       LET js == {j \in (i + 1)..Len(evs) : evs[j].k = "unlock"} IN
       IF js = {} THEN Lost("open") ELSE [rg |-> rg, i |-> (CHOOSE j \in js : \A j2 \in js : j <= j2) + 1, drift |-> FALSE, kind |-> "foreign"]
  ELSE IF top \in rg.table THEN
       \* the double check under the lock finds it
       IF IsEv(evs, i + 1, "unlock") THEN [rg |-> rg, i |-> i + 2, drift |-> FALSE, kind |-> "hit"] ELSE Lost("hit")
  ELSE LET c0 == [cache |-> rg.cache, linked |-> rg.linked, good |-> rg.good, bad |-> rg.bad, jp |-> {}, jl |-> <<>>]
           r == RBuild(top, c0, evs, i + 1) IN
       IF r.drift THEN Lost("build")
       ELSE IF r.ok THEN
            \* commit, publish S and - when the argument was a pointer - *S
            IF ~(IsEv(evs, r.i, "store") /\ EvNode(evs[r.i]) = top) THEN Lost("store")
            ELSE LET both == IsEv(evs, r.i + 1, "store") /\ EvNode(evs[r.i + 1]) = <<top[1], TRUE>> /\ <<top[1], TRUE>> \notin rg.table
                     j == IF both THEN r.i + 2 ELSE r.i + 1 IN
                 IF ~IsEv(evs, j, "unlock") THEN Lost("publish")
                 ELSE [rg |-> [rg EXCEPT !.cache = r.c.cache, !.linked = r.c.linked, !.good = r.c.good, !.bad = r.c.bad,
                                         !.table = @ \cup {top} \cup (IF both THEN {<<top[1], TRUE>>} ELSE {})],
                       i |-> j + 1, drift |-> FALSE, kind |-> "built"]
       ELSE \* failed: everything the section added is taken back, and the journals say so
            IF ~(IsEv(evs, r.i, "rollback") /\ evs[r.i].np = Cardinality(r.c.jp) /\ evs[r.i].nl = Len(r.c.jl)) THEN Lost("rollback")
            ELSE IF ~IsEv(evs, r.i + 1, "unlock") THEN Lost("rollback-unlock")
            ELSE [rg |-> [rg EXCEPT !.good = r.c.good, !.bad = r.c.bad], i |-> r.i + 2, drift |-> FALSE, kind |-> "rejected"]

\* ---- all sections of one recorded line --------------------------------------------------------
RECURSIVE RegFold(_, _, _, _)
RegFold(rg, evs, i, acc) ==   \* acc: [drift, kinds (bag as a function kind -> count)]
  IF i > Len(evs) \/ rg.lost THEN [rg |-> rg, drift |-> acc.drift, kinds |-> acc.kinds]
  ELSE IF evs[i].k # "lock" THEN [rg |-> [rg EXCEPT !.lost = TRUE], drift |-> TRUE, kinds |-> acc.kinds]
  ELSE LET r == Section(rg, evs, i)
           kd == IF r.kind \in DOMAIN acc.kinds THEN [acc.kinds EXCEPT ![r.kind] = @ + 1] ELSE acc.kinds @@ (r.kind :> 1) IN
       RegFold(r.rg, evs, r.i, [drift |-> acc.drift \/ r.drift, kinds |-> kd])

\* pe: process epoch, rs: number of this line within the process.  A new process starts from the empty
\* registry; a gap (the judge was handed the middle of a process) means the state is unknown: nothing is
\* judged until the next process.
RegStep(rg, line) ==
  LET rg0 == IF line.pe # rg.pe THEN (IF line.rs = 0 THEN RegInit(line.pe) ELSE [RegInit(line.pe) EXCEPT !.lost = TRUE])
             ELSE IF line.rs # rg.rs + 1 THEN [rg EXCEPT !.lost = TRUE] ELSE rg
      rg1 == [rg0 EXCEPT !.rs = line.rs] IN
  IF rg1.lost THEN [rg |-> rg1, drift |-> FALSE, kinds |-> <<>>, judged |-> FALSE]
  ELSE LET r == RegFold(rg1, line.obs.events, 1, [drift |-> FALSE, kinds |-> <<>>]) IN
       [rg |-> r.rg, drift |-> r.drift, kinds |-> r.kinds, judged |-> TRUE]
=============================================================================
