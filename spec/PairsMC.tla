------------------------------- MODULE PairsMC -------------------------------
(***************************************************************************)
(* Model-checks the schema-evolution theorems of the reference semantics   *)
(* on (writer W, reader T) pairs (env VERIF_PAIRS: JSON list of [w, t]):   *)
(*   Forward   an older reader never reports a message of the newer writer *)
(*             malformed (at worst a required field of its own is missing) *)
(*   TwoHop    if T is an OLDER version of W (its fields are fields of W   *)
(*             with the same types, and it declares the holder wherever it *)
(*             lacks fields of W), then decoding W's message with T,       *)
(*             re-encoding with T and decoding with W gives back the value *)
(*             up to normalisation (each hop turns nil non-optional        *)
(*             containers / structs into empty ones once more, fields the  *)
(*             intermediary does not know travel unchanged)                *)
(*             (C11 at the level of the specification)                     *)
(* Values of W are enumerated as in CodecMC.                               *)
(***************************************************************************)
EXTENDS CodecMC

Pairs == JsonDeserialize(IOEnv.VERIF_PAIRS)

\* T's type tt is the same as W's type tw, up to the struct names (which must again be older versions)
RECURSIVE SameShape(_, _), Older(_, _)
SameShape(tt, tw) ==
  /\ tt.k = tw.k /\ tt.ptr = tw.ptr
  /\ CASE tt.k \in ListKinds -> SameShape(tt.e, tw.e)
       [] tt.k = "map" -> SameShape(tt.kt, tw.kt) /\ SameShape(tt.vt, tw.vt)
       [] tt.k = "struct" -> (tt.s = tw.s \/ Older(tt.s, tw.s))
       [] OTHER -> TRUE
Older(t, w) ==
  /\ ~HasInit(t) /\ ~HasInit(w)
  /\ \A j \in 1..Len(FieldsOf(t)) :
        LET f == FieldsOf(t)[j]
            i == FieldIdx(w, f.id) IN
        i # 0 /\ SameShape(f.t, FieldsOf(w)[i].t) /\ f.req = FieldsOf(w)[i].req
  /\ (Len(FieldsOf(t)) = Len(FieldsOf(w)) \/ HasUnk(t))
  /\ (HasUnk(w) => HasUnk(t))

N3x(ty, x) == NormS(ty, NormS(ty, NormS(ty, x)))

VARIABLES pi                      \* (s, v of CodecMC: the writer struct and its value)
PInit == pi \in 1..Len(Pairs) /\ s = Pairs[pi][1] /\ v = NoVal
PNext == v = NoVal /\ v' \in Variants(s) /\ UNCHANGED <<s, pi>>
pv == v

W == s
R == Pairs[pi][2]
Msg == Enc(W, pv)

Forward ==
  pv = NoVal \/ ~Older(R, W) \/
  LET r == Dec(R, Msg, DefaultStruct(R)) IN r.st \in {"ok", "missing"} /\ (r.st = "ok" => r.n = Len(Msg))

TwoHop ==
  pv = NoVal \/ ~Older(R, W) \/ NilReq(StructT(W), pv, FALSE) \/
  LET r1 == Dec(R, Msg, ZeroStruct(R)) IN
  /\ r1.st = "ok"
  /\ LET m2 == Enc(R, r1.v)
         r2 == Dec(W, m2, ZeroStruct(W)) IN
     r2.st = "ok" /\ (SameStruct(W, N3x(W, r2.v), N3x(W, pv)) \/
                      ~PrintT(ToJson([tag |-> "TWOHOP", w |-> W, r |-> R, diff |-> DiffStruct(W, N3x(W, r2.v), N3x(W, pv))])))
=============================================================================
