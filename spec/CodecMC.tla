------------------------------- MODULE CodecMC -------------------------------
(***************************************************************************)
(* Model-checks the reference semantics itself (layer A): the theorems     *)
(* that make spec/Codec.tla a trustworthy oracle.  One initial state per   *)
(* (struct, value) case; values are enumerated here, in TLA+, from the     *)
(* type: a base value and every one-field substitution of a boundary       *)
(* value.  Invariants (checked by TLC on every case):                      *)
(*   SizeIsLen    the arithmetic size walk equals the length of the        *)
(*                reference encoding                                       *)
(*   ParseEnc     the strict parser accepts the reference encoding,        *)
(*                consumes all of it, denotes the value, re-encodes to it  *)
(*   RoundTrip    lenient decode of the reference encoding into a fresh,   *)
(*                default-initialised destination yields Norm(v) and       *)
(*                consumes everything (unless the value holds a nil        *)
(*                non-optional struct with required fields: then the       *)
(*                decoder must report the missing field)                   *)
(*   OrderFree    every field order decodes to the same value              *)
(*   PrefixBad    no proper prefix of an encoding is accepted              *)
(*   TrailFree    trailing bytes change neither value nor length           *)
(***************************************************************************)
EXTENDS MsgGenOps

\* ---- value enumeration --------------------------------------------------
ScalarVals(k) ==
  CASE k = "bool" -> {<<0>>, <<1>>}
    [] k = "i8" -> {<<0>>, <<127>>, <<128>>}
    [] k = "i16" -> {<<0, 0>>, <<127, 255>>, <<255, 255>>}
    [] k = "i32" -> {<<0, 0, 0, 0>>, <<128, 0, 0, 0>>, <<1, 2, 3, 4>>}
    [] k = "i64" -> {Zeros(8), <<255, 255, 255, 255, 255, 255, 255, 255>>, <<1, 2, 3, 4, 5, 6, 7, 8>>}
    [] k = "double" -> {Zeros(8), <<128, 0, 0, 0, 0, 0, 0, 0>>, <<127, 248, 0, 0, 0, 0, 18, 52>>, <<63, 240, 0, 0, 0, 0, 0, 0>>}
    [] k = "enum" -> {Zeros(8), <<255, 255, 255, 255, 255, 255, 255, 255>>, <<0, 0, 0, 0, 127, 255, 255, 255>>,
                      <<255, 255, 255, 255, 128, 0, 0, 0>>}
    [] k = "string" -> {<<>>, <<97>>, <<0, 255, 65>>}

\* the smallest element: zero scalar, empty container, nil pointer struct
ZeroOrNil(t) == IF t.ptr THEN [p |-> 0]
                ELSE IF t.k = "binary" THEN [nil |-> FALSE, b |-> <<>>]
                ELSE IF t.k \in ListKinds THEN [nil |-> FALSE, items |-> <<>>]
                ELSE IF t.k = "map" THEN [nil |-> FALSE, ents |-> <<>>]
                ELSE ZeroOf(t)
\* a second, distinct key
KeyZero(t) == IF t.ptr THEN [p |-> 1, v |-> ZeroOf([t EXCEPT !.ptr = FALSE])] ELSE ZeroOf(t)

RECURSIVE BaseOf(_, _), ValsOf(_, _)
\* a typical value; d bounds the nesting of pointer structs (recursive types)
BaseOf(t, d) ==
  IF t.ptr THEN (IF t.k = "struct" /\ d <= 0 THEN [p |-> 0] ELSE [p |-> 1, v |-> BaseOf([t EXCEPT !.ptr = FALSE], d - 1)])
  ELSE CASE t.k \in ScalarKinds -> CHOOSE x \in ScalarVals(t.k) : x # ZeroOf(t)
         [] t.k = "binary" -> [nil |-> FALSE, b |-> <<1, 2>>]
         [] t.k \in ListKinds -> [nil |-> FALSE, items |-> IF d <= 0 THEN <<>> ELSE <<BaseOf(t.e, d - 1)>>]
         [] t.k = "map" -> [nil |-> FALSE, ents |-> IF d <= 0 THEN <<>> ELSE << <<BaseOf(t.kt, d - 1), BaseOf(t.vt, d - 1)>> >>]
         [] t.k = "struct" -> [f |-> MatF([key \in DOMAIN ByKey[t.s] |-> BaseOf(ByKey[t.s][key].t, d - 1)]), unk |-> <<>>]

\* boundary values of a field type (req: requiredness of the field that holds it)
ValsOf(t, req) ==
  IF t.ptr THEN {[p |-> 0]} \cup {[p |-> 1, v |-> x] : x \in ValsOf([t EXCEPT !.ptr = FALSE], req)}
  ELSE CASE t.k \in ScalarKinds -> ScalarVals(t.k)
         [] t.k = "binary" -> {[nil |-> TRUE, b |-> <<>>], [nil |-> FALSE, b |-> <<>>], [nil |-> FALSE, b |-> <<7>>]}
         [] t.k \in ListKinds ->
              {[nil |-> TRUE, items |-> <<>>], [nil |-> FALSE, items |-> <<>>],
               [nil |-> FALSE, items |-> <<BaseOf(t.e, 1)>>],
               [nil |-> FALSE, items |-> <<BaseOf(t.e, 1), ZeroOrNil(t.e)>>]}
         [] t.k = "map" ->
              {[nil |-> TRUE, ents |-> <<>>], [nil |-> FALSE, ents |-> <<>>],
               [nil |-> FALSE, ents |-> << <<BaseOf(t.kt, 1), BaseOf(t.vt, 1)>> >>],
               [nil |-> FALSE, ents |-> << <<BaseOf(t.kt, 1), ZeroOrNil(t.vt)>>, <<KeyZero(t.kt), BaseOf(t.vt, 1)>> >>]}
         [] t.k = "struct" -> {BaseOf(t, 1), ZeroOf(t)}

Variants(s) ==
  LET base == BaseOf(StructT(s), 2) IN
  {base, ZeroStruct(s)} \cup
  UNION { {[base EXCEPT !.f[key] = x] : x \in ValsOf(ByKey[s][key].t, ByKey[s][key].req)} : key \in DOMAIN ByKey[s] } \cup
  (IF HasUnk(s) THEN {[base EXCEPT !.unk = <<8, 117, 48, 0, 0, 1, 0>>],
                      [ZeroStruct(s) EXCEPT !.unk = <<11, 117, 49, 0, 0, 0, 1, 120, 12, 117, 50, 0>>]} ELSE {})

ValidStructs == {s \in DOMAIN Defs : "invalid" \notin DOMAIN Defs[s]}

\* one initial state per struct (no value yet); its successors are the struct's cases, so that
\* TLC's workers evaluate the invariants of different structs in parallel
NoVal == [none |-> TRUE]
VARIABLES s, v
Init == s \in ValidStructs /\ v = NoVal
Next == v = NoVal /\ v' \in Variants(s) /\ UNCHANGED s

\* ---- does the value hold a nil non-optional pointer to a struct with required fields ----
RECURSIVE NilReq(_, _, _)
NilReq(t, x, optional) ==
  IF t.ptr THEN
       (IF x.p = 0 THEN t.k = "struct" /\ ~optional /\ RequiredOf(t.s) # {}
        ELSE NilReq([t EXCEPT !.ptr = FALSE], x.v, FALSE))
  ELSE CASE t.k \in ListKinds -> \E i \in 1..Len(x.items) : NilReq(t.e, x.items[i], FALSE)
         [] t.k = "map" -> \E i \in 1..Len(x.ents) : NilReq(t.kt, x.ents[i][1], FALSE) \/ NilReq(t.vt, x.ents[i][2], FALSE)
         [] t.k = "struct" -> \E key \in DOMAIN x.f : NilReq(ByKey[t.s][key].t, x.f[key], ByKey[t.s][key].req = "optional")
         [] OTHER -> FALSE

E == Enc(s, v)
T == StructT(s)

SizeIsLenBody == Size(s, v) = Len(E)
ParseEncBody ==
  LET p == Parse(s, E) IN
  p.ok /\ p.n = Len(E) /\ EncW(T, p.w) = E /\ CanonW(T, p.w) = CanonW(T, ExpS(s, v))
RoundTripBody ==
  LET r == Dec(s, E, DefaultStruct(s)) IN
  IF NilReq(T, v, FALSE) THEN r.st = "missing"
  ELSE r.st = "ok" /\ r.n = Len(E) /\ ~r.dup /\ SameStruct(s, r.v, NormS(s, v))
OrderFreeBody ==
  NilReq(T, v, FALSE) \/
  \A ord \in {"desc", "rot", "evod"} :
     LET r == Dec(s, EncO(T, ExpS(s, v), ord), DefaultStruct(s)) IN
     r.st = "ok" /\ SameStruct(s, r.v, NormS(s, v))
PrefixBadBody == \A n \in 0..(Len(E) - 1) : Dec(s, SubSeq(E, 1, n), ZeroStruct(s)).st # "ok"
TrailFreeBody ==
  NilReq(T, v, FALSE) \/
  LET r == Dec(s, E \o <<12, 0, 1>>, DefaultStruct(s)) IN r.st = "ok" /\ r.n = Len(E)
SizeIsLen == v = NoVal \/ SizeIsLenBody
ParseEnc  == v = NoVal \/ ParseEncBody
RoundTrip == v = NoVal \/ RoundTripBody
OrderFree == v = NoVal \/ OrderFreeBody
PrefixBad == v = NoVal \/ Len(E) > 150 \/ PrefixBadBody
TrailFree == v = NoVal \/ TrailFreeBody
=============================================================================
