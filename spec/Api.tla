--------------------------------- MODULE Api ---------------------------------
(***************************************************************************)
(* Layer A - the public API as a state machine.                            *)
(*                                                                         *)
(* State: used (types a call has been made on), cfg (legacy controls       *)
(* exercised so far), ncalls.  Every action's allowed outcomes are a       *)
(* function of the call's arguments ONLY - neither used nor cfg occurs in  *)
(* any Fail* operator.  That is how history independence (C07) and the     *)
(* inertness of the legacy controls (C17) are stated: the same Fail*       *)
(* predicates judge a call wherever it occurs in a history.                *)
(*                                                                         *)
(* Fail*(call, obs) is the set of clauses the observed outcome obs of the  *)
(* call violates; the outcome is allowed iff the set is empty.  ClauseProp *)
(* maps each clause to the listed properties it is part of.                *)
(***************************************************************************)
EXTENDS Codec, SpanOps, RegSeq

VARIABLES used, cfg, ncalls
apiVars == <<used, cfg, ncalls>>

ApiInit == used = {} /\ cfg = {} /\ ncalls = 0

\* protocol-exception type ids (Thrift TProtocolException)
INVALID_DATA == 1
NEGATIVE_SIZE == 2
SIZE_LIMIT == 3
DEPTH_LIMIT == 6

\* nesting depth up to which every message must be accepted
AlwaysAcceptedDepth == 48

ClauseProp ==
  [ size_ok        |-> {"C04"},
    size_exact     |-> {"C04"},
    arg_unchanged  |-> {"C16"},
    enc_ok         |-> {"C04", "C02", "C01"},
    enc_n          |-> {"C04"},
    enc_bytes      |-> {"C02"},
    enc_apache     |-> {"C02"},
    enc_tail       |-> {"C16"},
    enc_short_err  |-> {"C04"},
    enc_short_oob  |-> {"C04", "C16"},
    dec_nocrash    |-> {"C05"},
    dec_accept     |-> {"C03", "C05"},
    dec_n          |-> {"C03"},
    dec_val        |-> {"C03"},
    dec_unk        |-> {"C11"},
    dec_reject     |-> {"C05"},
    dec_required   |-> {"C09"},
    dec_req_class  |-> {"C09"},
    dec_depth      |-> {"C15"},
    dec_alloc      |-> {"C05"},
    dec_time       |-> {"C05"},
    scale_ok       |-> {"C05"},
    in_unchanged   |-> {"C16"},
    deep_accept    |-> {"C15"},
    deep_reject    |-> {"C15"},
    deep_nocrash   |-> {"C15", "C05"},
    deep_monotone  |-> {"C15"},
    deep_synth     |-> {"MACHINERY"},
    rej_err        |-> {"C13"},
    rej_panic      |-> {"C13"},
    rej_nofault    |-> {"C13"},
    rej_nowrite    |-> {"C13"},
    rej_nostore    |-> {"C13"},
    rej_stable     |-> {"C13"},
    legacy_ok      |-> {"C17"},
    legacy_ret     |-> {"C17"},
    legacy_same    |-> {"C17"},
    alloc_ok       |-> {"C18"},
    alloc_size     |-> {"C18"},
    alloc_enc      |-> {"C18"},
    par_norace     |-> {"C08"},
    par_nocrash    |-> {"C08"},
    walk_aligned   |-> {"C06"},
    walk_disjoint  |-> {"C06"},
    walk_noinput   |-> {"C06", "C14"},
    nocopy_exact   |-> {"C14"},
    nocopy_follows |-> {"C14"},
    recheck_stable |-> {"C06"},
    mem_crash      |-> {"C06"},
    span_aligned   |-> {"C06"},
    span_inblock   |-> {"C06"},
    span_conform   |-> {"DRIFT"},
    reg_mutex      |-> {"C08"},
    reg_conform    |-> {"DRIFT"},
    rt_ok          |-> {"C01"},
    rt_n           |-> {"C01"},
    rt_val         |-> {"C01"} ]

PropsOf(clauses) == UNION {ClauseProp[c] : c \in clauses}

If(c, name) == IF c THEN {} ELSE {name}

\* ---- EncodedSize -----------------------------------------------------------
FailSize(ty, val, obs) ==
  IF obs.out # "ok" THEN {"size_ok"}
  ELSE If(obs.n = Size(ty, val), "size_exact") \cup If(obs.pre = obs.post, "arg_unchanged")
JSize(ty, val, obs) == [fail |-> FailSize(ty, val, obs), cls |-> "Size>" \o obs.out]

\* ---- EncodeObject ----------------------------------------------------------
\* do the bytes denote val under the schema of ty, exactly as the reference encoder would
\* write them up to map-entry order
Denotes(ty, val, bytes) ==
  LET p == Parse(ty, bytes) IN
  /\ p.ok /\ p.n = Len(bytes)
  /\ EncW(StructT(ty), p.w) = bytes
  /\ CanonW(StructT(ty), p.w) = CanonW(StructT(ty), ExpS(ty, val))

JEncode(ty, val, buflen, obs) ==
  LET need == Size(ty, val) IN
  [ cls |-> (IF buflen >= need THEN "Encode/fits>" ELSE "Encode/short>") \o obs.out,
    fail |->
      If(obs.pre = obs.post, "arg_unchanged") \cup
      ( IF buflen >= need THEN
             IF obs.out # "ok" THEN {"enc_ok"}
             ELSE If(obs.n = need, "enc_n") \cup
                  If(obs.n >= 0 /\ obs.n <= buflen /\ Denotes(ty, val, obs.bytes), "enc_bytes") \cup
                  \* an independent Thrift implementation walks the whole output as one struct
                  If("ap_ok" \notin DOMAIN obs \/ (obs.ap_ok /\ obs.ap_left = 0), "enc_apache") \cup
                  If(obs.dhi < obs.n, "enc_tail")
        ELSE \* the buffer is shorter than the message: an error, nothing written past the buffer.
             \* A success here returned something that cannot denote the value (it is too short).
             (IF obs.out = "err" THEN {} ELSE {"enc_short_err", "enc_bytes"}) \cup
             If(obs.dhi < buflen, "enc_short_oob") ) ]
FailEncode(ty, val, buflen, obs) == JEncode(ty, val, buflen, obs).fail

\* ---- DecodeObject ----------------------------------------------------------
IsProto(obs, tid) == obs.out = "err" /\ obs.err.cls = "proto" /\ obs.err.tid = tid

\* generic well-formedness of the whole top-level struct
GenericWF(in) == Skip(TSTRUCT, in, 1, 100000) > 0

\* allocation allowance: proportional to the input plus a constant
\* (TLC integers are 32-bit: beyond 500 000 input bytes the bound is the largest value the driver reports)
AllocBound(n) == IF n >= 500000 THEN 2147483647 ELSE 4096 * n + 1048576

\* a decode that panicked / crashed / hung: never allowed (C05); if the input was a well-formed
\* message for the type it is also a failure to accept it (C03)
DecodeDied(ty, in, dest, out) ==
  LET r == Dec(ty, in, dest) IN
  [fail |-> {"dec_nocrash"} \cup (IF r.st = "ok" /\ ~r.q /\ r.d <= AlwaysAcceptedDepth THEN {"dec_accept"} ELSE {}),
   cls |-> "Decode/" \o r.st \o ">" \o out]

JDecode(ty, in, dest, obs) ==
  IF obs.out \in {"panic", "crash", "timeout"} THEN DecodeDied(ty, in, dest, obs.out)
  ELSE
  LET r == Dec(ty, in, dest) IN
  [ cls |-> "Decode/" \o r.st \o
            (IF r.st = "ok" /\ r.dup THEN "+dup" ELSE "") \o
            (IF r.st = "ok" /\ r.q THEN "+dubious" ELSE "") \o
            (IF r.st = "ok" /\ r.d > AlwaysAcceptedDepth THEN "+deep" ELSE "") \o
            (IF r.st = "ok" /\ r.n < Len(in) THEN "+trail" ELSE "") \o ">" \o obs.out,
    fail |->
      If(obs.inpre = obs.inpost, "in_unchanged") \cup
      If(obs.alloc <= AllocBound(Len(in)) /\ ("halloc" \notin DOMAIN obs \/ obs.halloc <= AllocBound(Len(in))), "dec_alloc") \cup
      If(obs.us <= 2000000, "dec_time") \cup
      ( IF r.st = "ok" /\ r.q THEN
             \* an empty container with an illegal element type code inside a skipped field:
             \* acceptance (with the reference value) and an error are both allowed
             IF obs.out = "ok" THEN If(obs.n = r.n /\ (r.dup \/ SameStruct(ty, obs.val, r.v)), "dec_val") ELSE {}
        ELSE IF r.st = "ok" THEN
             IF r.d <= AlwaysAcceptedDepth THEN
                  IF obs.out # "ok" THEN {"dec_accept"}
                  ELSE If(obs.n = r.n, "dec_n") \cup
                       If(r.dup \/ SameStruct(ty, obs.val, r.v), "dec_val")
             ELSE \* beyond the always-accepted depth: the reference result or a depth-limit error
                  IF obs.out = "ok" THEN If(obs.n = r.n /\ (r.dup \/ SameStruct(ty, obs.val, r.v)), "dec_val")
                  ELSE If(IsProto(obs, DEPTH_LIMIT), "dec_depth")
        ELSE IF r.st = "missing" THEN
             IF obs.out = "ok" THEN {"dec_required"}
             ELSE IF GenericWF(in) /\ MsgDepth(in) <= AlwaysAcceptedDepth
                  THEN If(IsProto(obs, INVALID_DATA) /\ \E nm \in r.names : HasSub(obs.err.msg, nm), "dec_req_class")
                  ELSE {}
        ELSE If(obs.out = "err", "dec_reject") ) ]
FailDecode(ty, in, dest, obs) == JDecode(ty, in, dest, obs).fail

\* ---- deeply nested messages (C15) ------------------------------------------
\* The driver synthesises a message nested `levels` deep (it says); when the message is
\* small enough to be part of the line (hasin) the claim is re-derived from the bytes and
\* the whole decode is judged as usual.  track = [maxok, minrej] of this pattern so far.
JDeep(line, track) ==
  LET obs == line.obs
      accepted == obs.out = "ok"
      base == IF obs.out \in {"panic", "crash", "timeout"} THEN {"deep_nocrash"}
              ELSE IF line.levels <= AlwaysAcceptedDepth
                   THEN If(accepted /\ obs.n = line.len, "deep_accept")
                   \* beyond 48 levels: accepted (then all of it was read) or a depth-limit protocol error
                   ELSE If(accepted \/ IsProto(obs, DEPTH_LIMIT), "deep_reject") \cup If(~accepted \/ obs.n = line.len, "deep_accept")
      mono == IF accepted THEN If(track.minrej < 0 \/ line.d < track.minrej, "deep_monotone")
              ELSE If(line.d > track.maxok, "deep_monotone")
      full == IF "in" \in DOMAIN line /\ obs.out \notin {"panic", "crash", "timeout"}
              THEN LET r == Dec(line.ty, line["in"], line.dest) IN
                   If(r.st = "ok" /\ r.d = line.levels /\ r.n = line.len, "deep_synth") \cup
                   (IF r.st = "ok" /\ accepted THEN If(obs.n = r.n /\ SameStruct(line.ty, obs.val, r.v), "dec_val") ELSE {})
              ELSE {} IN
  [ fail |-> base \cup mono \cup full,
    cls |-> "Deep/" \o (IF line.levels <= AlwaysAcceptedDepth THEN "<=48" ELSE ">48") \o ">" \o obs.out ]

\* ---- unsupported definitions and arguments (C13) ---------------------------------
\* prev: the outcome signature of the previous identical call, or "" if this is the first
RejSig(obs) == obs.out \o (IF obs.out = "panic" /\ obs.rt THEN "/runtime" ELSE "")
JReject(line, prev) ==
  LET obs == line.obs IN
  [ cls |-> "Reject/" \o line.entry \o ">" \o obs.out,
    fail |->
      If(obs.out # "crash", "rej_nofault") \cup
      (IF obs.out = "crash" THEN {}
       ELSE (IF line.entry = "size"
             THEN If(obs.out = "panic" /\ ~obs.rt, "rej_panic")      \* an ordinary Go panic
             ELSE If(obs.out = "err", "rej_err")) \cup
            If(obs.dhi < 0, "rej_nowrite") \cup
            If(obs.dpre = obs.dpost, "rej_nostore") \cup
            If(prev = "" \/ prev = RejSig(obs), "rej_stable")) ]

\* ---- time and memory proportional to the input (C05) -------------------------------------------
\* One shape at growing sizes (well-formed by construction; the smallest instance of the same builder is
\* an ordinary Decode line, checked byte by byte): every size is accepted and consumed entirely; the CPU
\* time of the calling thread grows at most linearly.  Memory management makes honest figures noisy (marking work
\* charged to the allocating goroutine, page faults on fresh memory: up to 80 ms were seen for a 1.5 MB map that
\* usually takes 3 ms), so the floor is 10 ms and the factor 12: the bound for the largest size (256 000 elements)
\* is about two seconds (linear code needs 0.01 - 0.4 s), a quadratic routine needs ten or more.  Allocation stays within 64 bytes per input byte.
JScale(line) ==
  LET obs == line.obs
      m == Len(line.lens) IN
  [ cls |-> "Scale/" \o line.shape \o ">" \o obs.out,
    fail |-> If(\A i \in 1..m : obs.outs[i] = "ok" /\ obs.ns[i] = line.lens[i], "scale_ok") \cup
             \* (every size against the SMALLEST one: between two large sizes the smaller may happen to run unusually fast)
             If(\A j \in 2..m : obs.us[j] <= MinI(MaxI(obs.us[1], 10000), 10000000) * ((line.lens[j] \div line.lens[1]) + 1) * 12, "dec_time") \cup
             If(\A i \in 1..m : obs.alloc[i] <= 64 * line.lens[i] + 1048576, "dec_alloc") ]

\* the same small message decoded many times by one recycled decoder state: no single call allocates out of
\* proportion (a sub-allocator whose blocks grow without bound shows up here)
JRepeat(line) ==
  [ cls |-> "Repeat>" \o line.obs.out,
    fail |-> If(line.obs.maxalloc <= AllocBound(line.len) /\ line.obs.maxhook <= AllocBound(line.len), "dec_alloc") ]

\* ---- legacy JIT controls (C17) ----------------------------------------------------
\* Their own contract: Pretouch accepts anything and returns nil, the setters return their
\* argument, the statistics are zero.  That no codec result depends on them is stated by the
\* structure of this module: no J* operator reads cfg.
\* (arguments and returned values are decimal strings: the whole int range, beyond TLC's 32 bits)
JLegacy(line) ==
  LET obs == line.obs IN
  [ cls |-> "Legacy/" \o line.call \o ">" \o obs.out,
    fail |-> IF obs.out # "ok" THEN {"legacy_ok"}
             ELSE If(line.call \notin {"SetMaxInlineDepth", "SetMaxInlineILSize"} \/ obs.ret = line.arg, "legacy_ret") \cup
                  If(obs.zero, "legacy_ret") ]

\* Observations of the same calls made in different environments (processes started with different settings of the
\* legacy controls): the outcome signatures must be the same in all of them.
JEnvCmp(line) ==
  LET es == line.obs.envs IN
  [ cls |-> "EnvCmp/" \o line.kind,
    fail |-> If(\A i, j \in 1..Len(es) : es[i].sig = es[j].sig, "legacy_same") ]

\* the outputs of the same call made before and after a legacy control (on two types with one schema, so that
\* both are first uses): byte for byte the same
JCmpOut(line) ==
  [ cls |-> "CmpOut>" \o (IF line.obs.oa = line.obs.ob THEN "same" ELSE "different"),
    fail |-> If(line.obs.oa = line.obs.ob, "legacy_same") ]

\* ---- allocation-free encoding after first use (C18) --------------------------------
JAllocs(line) ==
  LET obs == line.obs IN
  [ cls |-> "Allocs>" \o obs.out,
    fail |-> IF obs.out # "ok" THEN {"alloc_ok"}
             ELSE If(obs.size_mallocs < line.calls, "alloc_size") \cup If(obs.enc_mallocs < line.calls, "alloc_enc") ]

\* ---- memory ownership of decoded objects (C06, C14) ----------------------------------
\* line.obs.regions: the pieces of memory the kept objects refer to, sorted by address, with
\* rank-compressed extents [lo, hi), misalignment, and for pieces inside an input buffer the
\* offset from its start.  objin: step -> [ty, in] of the decodes that produced the objects.
JWalk(line, objin) ==
  LET rs == line.obs.regions
      ins == line.obs.inputs
      real == {i \in 1..Len(rs) : rs[i].lo < rs[i].hi} IN
  [ cls |-> "Walk>" \o line.obs.out,
    fail |->
      If(\A i \in 1..Len(rs) : rs[i].mis = 0, "walk_aligned") \cup
      If(\A i, j \in real : i < j => rs[i].hi <= rs[j].lo, "walk_disjoint") \cup
      If(/\ \A i \in real : rs[i].nocopy \/ \A k \in 1..Len(ins) : rs[i].hi <= ins[k].lo \/ rs[i].lo >= ins[k].hi
         \* also an empty slice / string must not point into the input (it would keep the buffer alive)
         /\ \A i \in 1..Len(rs) : rs[i].nocopy \/ rs[i].off < 0, "walk_noinput") \cup
      If(\A i \in 1..Len(rs) :
            rs[i].nocopy =>
              IF rs[i].len = 0 THEN rs[i].off < 0          \* a zero-length value does not reference the buffer
              ELSE /\ rs[i].cap = rs[i].len
                   /\ ToString(rs[i].obj) \in DOMAIN objin
                   /\ LET o == objin[ToString(rs[i].obj)] IN
                      IF Len(rs[i].keys) > 0
                      THEN LET lc == Locate(o.ty, o.in, 1, rs[i].keys) IN lc.ok /\ lc.off = rs[i].off /\ lc.len = rs[i].len
                      \* reached through a container (no field path): a view that starts right after a length
                      \* prefix holding exactly its length
                      ELSE rs[i].off >= 4 /\ rs[i].off + rs[i].len <= Len(o.in) /\ S32(o.in, rs[i].off - 3) = rs[i].len,
         "nocopy_exact") ]

JRecheck(line) ==
  [ cls |-> "Recheck/" \o line.after \o ">" \o line.obs.out,
    fail |-> If(line.obs.snap = line.obs.now, "recheck_stable") \cup
             (IF line.after = "overwrite"
              THEN If(\A i \in 1..Len(line.obs.nocopy) : \A j \in 1..Len(line.obs.nocopy[i].bytes) : line.obs.nocopy[i].bytes[j] = 255,
                      "nocopy_follows")
              ELSE {}) ]

\* ---- instrumentation events (build tag verif): conformance with the layer-B models ------------
\* Allocator events are replayed through SpanOps: the address handed out must be aligned and inside
\* its block (consequences of C06), and equal to what the model computes (otherwise the model has
\* drifted from the code: reported as DRIFT, never as a violation).  Registry events must respect the
\* mutex: the plain maps, the links and the table stores are only touched by the lock holder (C08).
\* sp: span id (as a string) -> [p, n, bm] (n < 0: block size unknown, bm then known modulo 64 only)
RECURSIVE HookFold(_, _, _)
HookFold(evs, i, acc) ==
  IF i > Len(evs) THEN acc
  ELSE LET e == evs[i] IN
  IF e.k = "base" THEN     \* a block taken while nothing was recorded: the state of the span is unknown
       HookFold(evs, i + 1, [acc EXCEPT !.sp = [x \in DOMAIN acc.sp \ {ToString(e.span)} |-> acc.sp[x]]])
  ELSE IF e.k = "block" THEN
       HookFold(evs, i + 1, [acc EXCEPT !.sp = (ToString(e.span) :> [p |-> 0, n |-> e.size, bm |-> e.bm]) @@ @,
                                        !.fail = @ \cup If(e.size >= BlockSize, "span_conform")])
  ELSE IF e.k = "malloc" THEN
       LET id == ToString(e.span) IN
       IF id \notin DOMAIN acc.sp \/ e.rel < 0 THEN
            \* first sight of this span in this trace: adopt what is observed
            HookFold(evs, i + 1, [acc EXCEPT !.sp = (id :> [p |-> e.rel + e.n, n |-> -1, bm |-> (e.amod + 64 - (e.rel % 64)) % 64]) @@ @,
                                             !.fail = @ \cup If(e.amod % e.align = 0, "span_aligned")])
       ELSE LET st == acc.sp[id]
                known == st.n >= 0
                exp == ResultRel(st, e.n, e.align)
                bad == If(e.amod % e.align = 0, "span_aligned") \cup
                       (IF known THEN If(e.rel >= 0 /\ e.rel + e.n <= st.n, "span_inblock") \cup
                                      If(Fits(st, e.n, e.align) /\ e.rel = exp, "span_conform")
                        ELSE If(e.rel >= st.p, "span_inblock")) IN
            HookFold(evs, i + 1, [acc EXCEPT !.sp = (id :> [st EXCEPT !.p = e.rel + e.n]) @@ @, !.fail = @ \cup bad])
  ELSE IF e.k = "direct" THEN
       HookFold(evs, i + 1, [acc EXCEPT !.fail = @ \cup If(e.typed \/ e.n > 256, "span_conform")])
  ELSE IF e.k = "lock" THEN
       HookFold(evs, i + 1, [acc EXCEPT !.holder = e.g, !.fail = @ \cup If(acc.holder = 0, "reg_mutex")])
  ELSE IF e.k = "unlock" THEN
       HookFold(evs, i + 1, [acc EXCEPT !.holder = 0, !.fail = @ \cup If(acc.holder = e.g, "reg_mutex")])
  ELSE \* pf / link / store / rollback: only the lock holder
       HookFold(evs, i + 1, [acc EXCEPT !.fail = @ \cup If(acc.holder = e.g, "reg_mutex")])

JHooks(line, sp) ==
  LET sp0 == IF "cont" \in DOMAIN line /\ ~line.cont THEN <<>> ELSE sp     \* allocations went unrecorded in between: adopt what is seen
      r == HookFold(line.obs.events, 1, [sp |-> sp0, holder |-> 0, fail |-> {}]) IN
  [fail |-> r.fail, cls |-> "Hooks>" \o line.obs.out, sp |-> r.sp]

\* Registry events of a step (recorded whenever the library is built with the hooks): every lock section
\* is replayed through the sequential registry model of RegSeq.  rg: the model's registry state.
JReg(line, rg) ==
  LET r == RegStep(rg, line) IN
  [fail |-> If(~r.drift, "reg_conform"),
   cls |-> IF ~r.judged THEN "Reg>state-unknown" ELSE IF r.drift THEN "Reg>drift" ELSE "Reg>conforms",
   rg |-> r.rg, kinds |-> r.kinds]

\* A forced two-party schedule (op "gated"): the writer was held at every registry hook of its lock
\* section; at each pause fresh readers made the probe calls.  A probe completes during a pause
\* exactly when the lock-free lookup finds its key, i.e. when the key was published before the pause:
\* a store hook fires just BEFORE the atomic store, so at pause k the stores of the earlier hooks
\* are visible.  (Model conformance: drift.  What the calls return is judged on their own lines; a
\* reader that never returns is a hang.)
JGated(line, rg) ==
  LET ps == line.obs.pauses
      pr == line.obs.probes
      Pub(k) == rg.table \cup {<<ps[j].s, ps[j].p>> : j \in {jj \in 1..(k - 1) : ps[jj].k = "store"}}
      agrees == \A k \in 1..Len(ps) : \A i \in 1..Len(pr) : ps[k].early[i] = (<<pr[i].s, pr[i].p>> \in Pub(k))
      known == ~rg.lost /\ rg.pe = line.pe IN
  [ cls |-> "Gated>" \o line.obs.out \o (IF known THEN "" ELSE "/state-unknown"),
    fail |-> If(line.obs.out = "ok", "par_nocrash") \cup (IF known THEN If(agrees, "reg_conform") ELSE {}) ]

\* ---- concurrent sections (C08) --------------------------------------------------------
\* The calls made inside a concurrent section are ordinary lines, judged like sequential calls
\* (that IS the property: every call returns what it would return sequentially).  The section
\* itself must end without a data-race report, a crash or a hang.
JPar(line) ==
  [ cls |-> "Par>" \o line.obs.out,
    fail |-> IF line.obs.out = "ok" THEN {}
             ELSE IF line.obs.out = "race" THEN {"par_norace"} ELSE {"par_nocrash"} ]

\* round trip (C01): the decode of frugal's own output for value orig
\* hops = 2: the value went through an intermediary (decode + re-encode) before this decode.  Every
\* hop normalises once more (a nil pointer element becomes a zero struct whose own nil containers
\* become empty on the next hop), and fields the intermediary did not know travel unchanged, so the
\* two sides are compared after normalising both to the same depth: nothing but nil-versus-empty
\* distinctions is given up.
N3(ty, v) == NormS(ty, NormS(ty, NormS(ty, v)))
FailRoundTrip(ty, orig, in, obs, hops) ==
  IF obs.out # "ok" THEN {"rt_ok"}
  ELSE If(obs.n = Len(in), "rt_n") \cup
       If(IF hops = 2 THEN SameStruct(ty, N3(ty, obs.val), N3(ty, orig))
          ELSE SameStruct(ty, obs.val, NormS(ty, orig)), "rt_val")

\* ---- actions ---------------------------------------------------------------
Call(ty) == used' = used \cup {ty} /\ ncalls' = ncalls + 1 /\ UNCHANGED cfg
\* a legacy control: recorded in cfg, which nothing ever reads
LegacyCall(c) == cfg' = cfg \cup {c} /\ UNCHANGED <<used, ncalls>>

SizeOK(ty, val, obs)            == FailSize(ty, val, obs) = {} /\ Call(ty)
EncodeOK(ty, val, buflen, obs)  == FailEncode(ty, val, buflen, obs) = {} /\ Call(ty)
DecodeOK(ty, in, dest, obs)     == FailDecode(ty, in, dest, obs) = {} /\ Call(ty)
=============================================================================
