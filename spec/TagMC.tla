-------------------------------- MODULE TagMC --------------------------------
(***************************************************************************)
(* Model-checks the definition language on a universe of struct shapes     *)
(* (env VERIF_SHAPES, JSON object name -> [shape, expect_ok, canon]):      *)
(*   TagEquiv       every spelling of a definition derives exactly the     *)
(*                  canonical schema it is a spelling of (id, requiredness,*)
(*                  type, nocopy, in id order)                             *)
(*   RejectCorrect  every definition of an invalid class is outside the    *)
(*                  language, every valid one inside                       *)
(* One state per struct: TLC's distinct-state count = definitions checked. *)
(***************************************************************************)
EXTENDS TagLang, Json, IOUtils

Shapes == JsonDeserialize(IOEnv.VERIF_SHAPES)
Names == SetToSeq(DOMAIN Shapes)

VARIABLE i
Init == i = 0
Next == i < Len(Names) /\ i' = i + 1

Cur == Shapes[Names[i]]

\* the part of a derived field that the canonical schema fixes
Core(f) == [id |-> f.id, req |-> f.req, t |-> f.t, nocopy |-> f.nocopy]

RejectCorrect == i = 0 \/ (Accepts(Cur.shape) <=> Cur.expect_ok)
TagEquiv ==
  i = 0 \/ ~Cur.expect_ok \/
  LET d == Derive(Cur.shape) IN
  /\ d.ok
  /\ Len(d.fields) = Len(Cur.canon)
  /\ \A j \in 1..Len(d.fields) : Core(d.fields[j]) = Core(Cur.canon[j])
=============================================================================
