------------------------------- MODULE SpanOps -------------------------------
(***************************************************************************)
(* Layer B - the decoder's bump allocator (internal/reflect/span.go) as    *)
(* pure operators, shared by the exhaustive model Span.tla and by the      *)
(* conformance check of recorded allocator events (Api!JHooks).            *)
(*                                                                         *)
(* A span state is [p, n, bm]: offset of the next free byte in the current *)
(* block, size of the block, address of the block modulo 4096.             *)
(***************************************************************************)
EXTENDS Integers

BlockSize == 2048

\* padding needed at offset p of a block whose address is bm (mod 4096)
PadAt(bm, p, align) == (align - ((bm + p) % align)) % align

\* does a request fit in the current block (the code's test, with the worst-case padding)
Fits(s, size, align) == s.p + size + (align - 1) <= s.n

\* size of the block allocated when the request does not fit
NewBlockSize(size, align) == IF size + (align - 1) > BlockSize THEN size + (align - 1) ELSE BlockSize

\* the offset (relative to the block) the allocator returns for a request that fits
ResultRel(s, size, align) == s.p + PadAt(s.bm, s.p, align)

\* state after serving the request
After(s, size, align) == [s EXCEPT !.p = ResultRel(s, size, align) + size]
=============================================================================
