------------------------------ MODULE ApiTrace ------------------------------
(***************************************************************************)
(* Trace specification: every line recorded from the real code must be a   *)
(* step of Api.  The trace (NDJSON, env VERIF_TRACE) is a concatenation of *)
(* scenarios; a "Scenario" line resets the per-scenario context cur (the   *)
(* abstract values the following steps refer to by index).                 *)
(*                                                                         *)
(* A line whose observed outcome is not allowed does not stop validation:  *)
(* it is taken by the Deviation disjunct, which prints the line number,    *)
(* the violated clauses and the properties they belong to; the rest of the *)
(* trace is still checked.  Acceptance: all lines consumed, no deviation.  *)
(***************************************************************************)
EXTENDS Api

Trace == ndJsonDeserialize(IOEnv.VERIF_TRACE)

VARIABLES l, cur, ndev
traceVars == <<l, cur, ndev, used, cfg, ncalls>>

TraceInit == ApiInit /\ l = 1 /\ cur = [vals |-> <<>>] /\ ndev = 0

Line == Trace[l]
IsEvent(e) == l <= Len(Trace) /\ Line.ev = e

\* clauses violated by the current line (never looks at used / cfg / ncalls)
Verdict ==
  CASE Line.ev = "Size" ->
         (IF Line.obs.out = "crash" THEN {"size_ok"}
          ELSE FailSize(Line.ty, cur.vals[Line.v + 1], Line.obs))
    [] Line.ev = "Encode" ->
         (IF Line.obs.out \in {"crash", "panic"} THEN {"enc_ok"}
          ELSE FailEncode(Line.ty, cur.vals[Line.v + 1], Line.buflen, Line.obs))
    [] Line.ev = "Decode" ->
         (IF Line.obs.out \in {"crash", "timeout"} THEN {"dec_nocrash"}
          ELSE FailDecode(Line.ty, Line.in, Line.dest, Line.obs) \cup
               (IF Line.orig >= 0
                THEN FailRoundTrip(Line.ty, cur.vals[Line.orig + 1], Line.in, Line.obs)
                ELSE {}))
    [] OTHER -> {}

\* where the observed value departs from the expected one (diagnostic text only)
Why(v) ==
  IF Line.ev = "Decode" /\ Len(Line.in) > 2000 THEN <<"(large value: no diff computed)">>
  ELSE IF Line.ev = "Decode" /\ Line.obs.out = "ok" /\ "rt_val" \in v
  THEN <<"rt">> \o DiffStruct(Line.ty, Line.obs.val, NormS(Line.ty, cur.vals[Line.orig + 1]))
  ELSE IF Line.ev = "Decode" /\ Line.obs.out = "ok" /\ "dec_val" \in v
  THEN <<"dec">> \o DiffStruct(Line.ty, Line.obs.val, Dec(Line.ty, Line.in, Line.dest).v)
  ELSE <<>>

Report(v) == PrintT(ToJson([tag |-> "REJECT", l |-> l, sid |-> Line.sid, step |-> Line.step, ev |-> Line.ev,
                            clauses |-> v, props |-> PropsOf(v), why |-> Why(v)]))

TraceScenario ==
  /\ IsEvent("Scenario")
  /\ cur' = [vals |-> Line.vals]
  /\ l' = l + 1
  /\ UNCHANGED <<ndev, used, cfg, ncalls>>

\* a call whose observed outcome the specification allows
TraceCall ==
  /\ l <= Len(Trace) /\ Line.ev \in {"Size", "Encode", "Decode"}
  /\ LET v == Verdict IN
     /\ IF v = {} THEN ndev' = ndev ELSE Report(v) /\ ndev' = ndev + 1
     /\ Call(Line.ty)
  /\ l' = l + 1
  /\ UNCHANGED cur

\* lines that carry no obligation (GC, skipped steps, end marker)
TraceOther ==
  /\ l <= Len(Trace) /\ Line.ev \notin {"Scenario", "Size", "Encode", "Decode"}
  /\ l' = l + 1
  /\ UNCHANGED <<cur, ndev, used, cfg, ncalls>>

TraceNext == TraceScenario \/ TraceCall \/ TraceOther

TraceSpec == TraceInit /\ [][TraceNext]_traceVars

\* every line was consumed
TraceConsumed == TLCGet("stats").diameter - 1 = Len(Trace)
\* printed at the end so that the orchestrator can cross-check its own count
Summary == PrintT(ToJson([tag |-> "SUMMARY", lines |-> Len(Trace), consumed |-> TLCGet("stats").diameter - 1]))
TraceAccepted == Summary /\ TraceConsumed
=============================================================================
