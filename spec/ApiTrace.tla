------------------------------ MODULE ApiTrace ------------------------------
(***************************************************************************)
(* Trace specification: every line recorded from the real code must be a   *)
(* step of Api.  The trace (NDJSON, env VERIF_TRACE) is a concatenation of *)
(* scenarios; a "Scenario" line resets the per-scenario context cur (the   *)
(* abstract values the following steps refer to by index).                 *)
(*                                                                         *)
(* A line whose observed outcome is not allowed does not stop validation:  *)
(* it is taken by the Deviation disjunct, which prints the line number,    *)
(* the violated clauses and the properties they belong to; the rest of the *)
(* trace is still checked.  Acceptance: all lines consumed, no deviation.  *)
(***************************************************************************)
EXTENDS Api

Trace == ndJsonDeserialize(IOEnv.VERIF_TRACE)

VARIABLES l, cur, ndev
traceVars == <<l, cur, ndev, used, cfg, ncalls>>

TraceInit == TLCSet(1, <<>>) /\ ApiInit /\ l = 1 /\ cur = [vals |-> <<>>, prop |-> ""] /\ ndev = 0

Line == Trace[l]
IsEvent(e) == l <= Len(Trace) /\ Line.ev = e

\* the value argument of a Size / Encode line: inline (a previously decoded object) or by index
ValOf == IF "val" \in DOMAIN Line THEN Line.val ELSE cur.vals[Line.v + 1]

\* judgement of the current line: violated clauses and the class of the case (for coverage
\* statistics); never looks at used / cfg / ncalls
Judge ==
  CASE Line.ev = "Size" ->
         (IF Line.obs.out = "crash" THEN [fail |-> {"size_ok"}, cls |-> "Size>crash"]
          ELSE JSize(Line.ty, ValOf, Line.obs))
    [] Line.ev = "Encode" ->
         (IF Line.obs.out \in {"crash", "panic"} THEN [fail |-> {"enc_ok"}, cls |-> "Encode/?>" \o Line.obs.out]
          ELSE JEncode(Line.ty, ValOf, Line.buflen, Line.obs))
    [] Line.ev = "Decode" ->
         (IF Line.obs.out \in {"crash", "timeout"} THEN [fail |-> {"dec_nocrash"}, cls |-> "Decode/?>" \o Line.obs.out]
          ELSE LET j == JDecode(Line.ty, Line.in, Line.dest, Line.obs) IN
               [j EXCEPT !.fail = @ \cup (IF Line.orig >= 0
                                           THEN FailRoundTrip(Line.ty, cur.vals[Line.orig + 1], Line.in, Line.obs)
                                           ELSE {})])
    [] OTHER -> [fail |-> {}, cls |-> "other"]

\* where the observed value departs from the expected one (diagnostic text only)
Why(v) ==
  IF Line.obs.out \in {"crash", "timeout", "panic"} THEN <<Line.obs.out>>
  ELSE IF Line.ev = "Decode" /\ Len(Line.in) > 2000 THEN <<"(large value: no diff computed)">>
  ELSE IF Line.ev = "Decode" /\ Line.obs.out = "ok" /\ "rt_val" \in v
  THEN <<"rt">> \o DiffStruct(Line.ty, Line.obs.val, NormS(Line.ty, cur.vals[Line.orig + 1]))
  ELSE IF Line.ev = "Decode" /\ Line.obs.out = "ok" /\ "dec_val" \in v
  THEN <<"dec">> \o DiffStruct(Line.ty, Line.obs.val, Dec(Line.ty, Line.in, Line.dest).v)
  ELSE <<>>

\* A scenario is an instance of the quantifier of the property it was generated for, so a
\* wrong result of one of its calls also counts against that property.
ScenarioProps(v) ==
  IF v \cap {"dec_val", "dec_n", "dec_accept", "enc_bytes", "enc_ok", "size_exact", "size_ok", "enc_n"} # {} /\
     cur.prop \in {"C09", "C10", "C11", "C12", "C14"}
  THEN {cur.prop} ELSE {}

Report(v) == PrintT(ToJson([tag |-> "REJECT", l |-> l, sid |-> Line.sid, step |-> Line.step, ev |-> Line.ev,
                            clauses |-> v, props |-> PropsOf(v) \cup ScenarioProps(v), why |-> Why(v)]))

\* coverage statistics: class -> number of lines, kept in TLC register 1 (single worker)
Count(c) ==
  LET st == TLCGet(1) IN
  TLCSet(1, IF c \in DOMAIN st THEN [st EXCEPT ![c] = @ + 1] ELSE st @@ (c :> 1))

TraceScenario ==
  /\ IsEvent("Scenario")
  /\ cur' = [vals |-> Line.vals, prop |-> Line.prop]
  /\ l' = l + 1
  /\ UNCHANGED <<ndev, used, cfg, ncalls>>

\* a call whose observed outcome the specification allows
TraceCall ==
  /\ l <= Len(Trace) /\ Line.ev \in {"Size", "Encode", "Decode"}
  /\ LET j == Judge
         v == j.fail IN
     /\ IF v = {} THEN ndev' = ndev ELSE Report(v) /\ ndev' = ndev + 1
     /\ Count(j.cls)
     /\ Call(Line.ty)
  /\ l' = l + 1
  /\ UNCHANGED cur

\* lines that carry no obligation (GC, skipped steps, end marker)
TraceOther ==
  /\ l <= Len(Trace) /\ Line.ev \notin {"Scenario", "Size", "Encode", "Decode"}
  /\ l' = l + 1
  /\ UNCHANGED <<cur, ndev, used, cfg, ncalls>>

TraceNext == TraceScenario \/ TraceCall \/ TraceOther

TraceSpec == TraceInit /\ [][TraceNext]_traceVars

\* every line was consumed
TraceConsumed == TLCGet("stats").diameter - 1 = Len(Trace)
\* printed at the end so that the orchestrator can cross-check its own count
Summary == PrintT(ToJson([tag |-> "SUMMARY", lines |-> Len(Trace), consumed |-> TLCGet("stats").diameter - 1,
                                classes |-> TLCGet(1)]))
TraceAccepted == Summary /\ TraceConsumed
=============================================================================
