------------------------------ MODULE ApiTrace ------------------------------
(***************************************************************************)
(* Trace specification: every line recorded from the real code must be a   *)
(* step of Api.  The trace (NDJSON, env VERIF_TRACE) is a concatenation of *)
(* scenarios; a "Scenario" line resets the per-scenario context cur (the   *)
(* abstract values the following steps refer to by index).                 *)
(*                                                                         *)
(* A line whose observed outcome is not allowed does not stop validation:  *)
(* it is taken by the Deviation disjunct, which prints the line number,    *)
(* the violated clauses and the properties they belong to; the rest of the *)
(* trace is still checked.  Acceptance: all lines consumed, no deviation.  *)
(***************************************************************************)
EXTENDS Api

Trace == ndJsonDeserialize(IOEnv.VERIF_TRACE)

VARIABLES l, cur, ndev, deep, rej, objin, spans, regst
traceVars == <<l, cur, ndev, deep, rej, objin, spans, regst, used, cfg, ncalls>>

TraceInit == TLCSet(1, <<>>) /\ ApiInit /\ l = 1 /\ cur = [vals |-> <<>>, prop |-> ""] /\ ndev = 0 /\ deep = <<>> /\ rej = <<>> /\ objin = <<>> /\ spans = <<>> /\ regst = RegInit(-1)

Line == Trace[l]
IsEvent(e) == l <= Len(Trace) /\ Line.ev = e

\* the value argument of a Size / Encode line: inline (a previously decoded object) or by index
ValOf == IF "val" \in DOMAIN Line THEN Line.val ELSE cur.vals[Line.v + 1]

\* per (type, pattern): deepest accepted and shallowest rejected repetition count so far
DeepKey(ty, pattern) == ty \o "/" \o pattern
DeepTrack(ty, pattern) ==
  IF DeepKey(ty, pattern) \in DOMAIN deep THEN deep[DeepKey(ty, pattern)] ELSE [maxok |-> 0, minrej |-> -1]

CallEvents == {"Size", "Encode", "Decode", "Deep", "Reject", "Legacy", "Allocs", "Par", "Walk", "Recheck", "Hooks", "Reg", "Gated", "Scale", "Repeat", "EnvCmp", "CmpOut"}

\* rejected calls seen so far in the whole trace: (type, entry, argument kind) -> outcome
RejKey == Line.ty \o "/" \o Line.entry \o "/" \o Line.arg

\* judgement of the current line: violated clauses and the class of the case (for coverage
\* statistics); never looks at used / cfg / ncalls
\* a step the child process did not survive (or that never returned): the obligation depends on
\* the kind of step only
CrashClause(ev) ==
  CASE ev = "Size" -> "size_ok" [] ev = "Encode" -> "enc_ok" [] ev = "Decode" -> "dec_nocrash"
    [] ev \in {"Scale", "Repeat"} -> "dec_nocrash" [] ev = "Deep" -> "deep_nocrash" [] ev = "Reject" -> "rej_nofault" [] ev = "Legacy" -> "legacy_ok"
    [] ev = "Allocs" -> "alloc_ok" [] ev \in {"Par", "Gated"} -> (IF Line.obs.out = "race" THEN "par_norace" ELSE "par_nocrash")
    [] OTHER -> "mem_crash"       \* walking / re-reading a kept decoded object killed the process

Judge ==
  IF Line.obs.out \in {"crash", "timeout", "race"}
  THEN (IF Line.ev = "Decode" /\ Len(Line.in) > 0 /\ Line.ty \in DOMAIN Defs
        THEN DecodeDied(Line.ty, Line.in, ZeroStruct(Line.ty), Line.obs.out)
        ELSE [fail |-> {CrashClause(Line.ev)}, cls |-> Line.ev \o "/?>" \o Line.obs.out])
  ELSE
  CASE Line.ev = "Size" -> JSize(Line.ty, ValOf, Line.obs)
    [] Line.ev = "Encode" ->
         (IF Line.obs.out = "panic" THEN [fail |-> {"enc_ok"}, cls |-> "Encode/?>panic"]
          ELSE JEncode(Line.ty, ValOf, Line.buflen, Line.obs))
    [] Line.ev = "Decode" ->
         (LET j == JDecode(Line.ty, Line.in, Line.dest, Line.obs) IN
               [j EXCEPT !.fail = @ \cup (IF Line.orig >= 0
                                           THEN FailRoundTrip(Line.ty, cur.vals[Line.orig + 1], Line.in, Line.obs,
                                                              IF "hops" \in DOMAIN Line THEN Line.hops ELSE 1)
                                           ELSE {})])
    [] Line.ev = "Deep" -> JDeep(Line, DeepTrack(Line.ty, Line.pattern))
    [] Line.ev = "Hooks" -> JHooks(Line, spans)
    [] Line.ev = "Reg" -> JReg(Line, regst)
    [] Line.ev = "Gated" -> JGated(Line, regst)
    [] Line.ev = "EnvCmp" -> JEnvCmp(Line)
    [] Line.ev = "CmpOut" -> JCmpOut(Line)
    [] Line.ev = "Scale" -> JScale(Line)
    [] Line.ev = "Repeat" -> JRepeat(Line)
    [] Line.ev = "Walk" -> JWalk(Line, objin)
    [] Line.ev = "Recheck" -> JRecheck(Line)
    [] Line.ev = "Par" -> JPar(Line)
    [] Line.ev = "Legacy" -> JLegacy(Line)
    [] Line.ev = "Allocs" -> JAllocs(Line)
    [] Line.ev = "Reject" -> JReject(Line, IF RejKey \in DOMAIN rej THEN rej[RejKey] ELSE "")
    [] OTHER -> [fail |-> {}, cls |-> "other"]

\* where the observed value departs from the expected one (diagnostic text only)
Why(v) ==
  IF Line.obs.out \in {"crash", "timeout", "panic", "race"} THEN <<Line.obs.out>>
  ELSE IF Line.ev = "Deep" THEN <<Line.pattern, ToString(Line.d), ToString(Line.levels), Line.obs.out>>
  ELSE IF Line.ev = "Decode" /\ Len(Line.in) > 2000 THEN <<"(large value: no diff computed)">>
  ELSE IF Line.ev = "Decode" /\ Line.obs.out = "ok" /\ "rt_val" \in v
  THEN <<"rt">> \o (IF "hops" \in DOMAIN Line /\ Line.hops = 2
                     THEN DiffStruct(Line.ty, N3(Line.ty, Line.obs.val), N3(Line.ty, cur.vals[Line.orig + 1]))
                     ELSE DiffStruct(Line.ty, Line.obs.val, NormS(Line.ty, cur.vals[Line.orig + 1])))
  ELSE IF Line.ev = "Decode" /\ Line.obs.out = "ok" /\ "dec_val" \in v
  THEN <<"dec">> \o DiffStruct(Line.ty, Line.obs.val, Dec(Line.ty, Line.in, Line.dest).v)
  ELSE <<>>

\* A scenario is an instance of the quantifier of the property it was generated for, so a
\* wrong result of one of its calls also counts against that property.
ScenarioProps(v) ==
  IF v \cap {"dec_val", "dec_n", "dec_accept", "enc_bytes", "enc_ok", "size_exact", "size_ok", "enc_n"} # {} /\
     cur.prop \in {"C09", "C10", "C11", "C12", "C14"}
  THEN {cur.prop}
  ELSE IF cur.prop = "C03" /\ v \cap {"deep_accept", "deep_nocrash"} # {}
  THEN {"C03"}       \* a well-formed message inside the conventional nesting limit is a message the reader must accept
  ELSE IF cur.prop \in {"C01", "C03", "C07", "C09", "C10", "C11", "C16", "C17"} /\ v \cap {"recheck_stable", "mem_crash"} # {}
  THEN {cur.prop}    \* a value that changes behind the caller's back (a decoded one under collections, an argument a later call reaches)
  ELSE IF cur.prop = "C12" /\ v \cap {"nocopy_exact", "nocopy_follows", "walk_noinput"} # {}
  THEN {"C12"}       \* C12: the nocopy option takes effect under every spelling of the tag
  ELSE IF cur.prop = "C16" /\ v \cap {"enc_bytes", "enc_ok", "enc_n"} # {}
  THEN {"C16"}       \* C16: encoding the same unmodified value again yields the same bytes
  ELSE {}

Report(v) == PrintT(ToJson([tag |-> "REJECT", l |-> l, sid |-> Line.sid, step |-> Line.step, ev |-> Line.ev,
                            clauses |-> v, props |-> PropsOf(v) \cup ScenarioProps(v), why |-> Why(v)]))

\* coverage statistics: class -> number of lines, kept in TLC register 1 (single worker)
Count(c) ==
  LET st == TLCGet(1) IN
  TLCSet(1, IF c \in DOMAIN st THEN [st EXCEPT ![c] = @ + 1] ELSE st @@ (c :> 1))

CountN(c, n) ==
  LET st == TLCGet(1) IN
  TLCSet(1, IF c \in DOMAIN st THEN [st EXCEPT ![c] = @ + n] ELSE st @@ (c :> n))

TraceScenario ==
  /\ IsEvent("Scenario")
  /\ cur' = [vals |-> Line.vals, prop |-> Line.prop]
  /\ l' = l + 1
  /\ deep' = <<>>      \* thresholds are tracked per scenario
  /\ objin' = <<>>
  /\ UNCHANGED <<ndev, rej, spans, regst, used, cfg, ncalls>>

\* a call whose observed outcome the specification allows
TraceCall ==
  /\ l <= Len(Trace) /\ Line.ev \in CallEvents
  /\ objin' = IF Line.ev = "Decode" /\ Line.obs.out = "ok" /\ "thr" \notin DOMAIN Line /\ cur.prop \in {"C06", "C12", "C14"}
              THEN (ToString(Line.step) :> [ty |-> Line.ty, in |-> Line.in]) @@ objin ELSE objin
  /\ rej' = IF Line.ev = "Reject" /\ Line.obs.out # "crash" THEN (RejKey :> RejSig(Line.obs)) @@ rej ELSE rej
  /\ deep' = IF Line.ev # "Deep" THEN deep
             ELSE LET t == DeepTrack(Line.ty, Line.pattern)
                      nt == IF Line.obs.out = "ok"
                            THEN [t EXCEPT !.maxok = IF Line.d > @ THEN Line.d ELSE @]
                            ELSE [t EXCEPT !.minrej = IF @ < 0 \/ Line.d < @ THEN Line.d ELSE @]
                  IN (DeepKey(Line.ty, Line.pattern) :> nt) @@ deep
  /\ LET j == Judge
         v == j.fail IN
     /\ spans' = IF Line.ev = "Hooks" /\ "sp" \in DOMAIN j THEN j.sp ELSE spans
     /\ regst' = IF Line.ev = "Reg" /\ "rg" \in DOMAIN j THEN j.rg ELSE regst
     /\ IF Line.ev = "Reg" /\ "kinds" \in DOMAIN j THEN \A k \in DOMAIN j.kinds : CountN("RegSection>" \o k, j.kinds[k]) ELSE TRUE
     /\ IF v = {} THEN ndev' = ndev ELSE Report(v) /\ ndev' = ndev + 1
     /\ Count(j.cls)
     /\ IF Line.ev = "Legacy" THEN LegacyCall(Line.call)
        ELSE IF Line.ev \in {"Par", "Walk", "Recheck", "Hooks", "Reg", "Gated", "EnvCmp", "CmpOut", "Scale", "Repeat"} THEN UNCHANGED apiVars
        ELSE Call(Line.ty)
  /\ l' = l + 1
  /\ UNCHANGED cur

\* lines that carry no obligation (GC, skipped steps, end marker)
TraceOther ==
  /\ l <= Len(Trace) /\ Line.ev \notin CallEvents \cup {"Scenario"}
  /\ l' = l + 1
  /\ UNCHANGED <<cur, ndev, deep, rej, objin, spans, regst, used, cfg, ncalls>>

TraceNext == TraceScenario \/ TraceCall \/ TraceOther

TraceSpec == TraceInit /\ [][TraceNext]_traceVars

\* every line was consumed
TraceConsumed == TLCGet("stats").diameter - 1 = Len(Trace)
\* printed at the end so that the orchestrator can cross-check its own count
Summary == PrintT(ToJson([tag |-> "SUMMARY", lines |-> Len(Trace), consumed |-> TLCGet("stats").diameter - 1,
                                classes |-> TLCGet(1)]))
TraceAccepted == Summary /\ TraceConsumed
=============================================================================
