------------------------------ MODULE ApiTrace ------------------------------
(***************************************************************************)
(* Trace specification: every line recorded from the real code must be a   *)
(* step of Api.  The trace (NDJSON, env VERIF_TRACE) is a concatenation of *)
(* scenarios; a "Scenario" line resets the per-scenario context cur (the   *)
(* abstract values the following steps refer to by index).                 *)
(*                                                                         *)
(* A line whose observed outcome is not allowed does not stop validation:  *)
(* it is taken by the Deviation disjunct, which prints the line number,    *)
(* the violated clauses and the properties they belong to; the rest of the *)
(* trace is still checked.  Acceptance: all lines consumed, no deviation.  *)
(***************************************************************************)
EXTENDS Api

Trace == ndJsonDeserialize(IOEnv.VERIF_TRACE)

VARIABLES l, cur, ndev
traceVars == <<l, cur, ndev, used, cfg, ncalls>>

TraceInit == ApiInit /\ l = 1 /\ cur = [vals |-> <<>>] /\ ndev = 0

Line == Trace[l]
IsEvent(e) == l <= Len(Trace) /\ Line.ev = e

\* clauses violated by the current line (never looks at used / cfg / ncalls)
Verdict ==
  CASE Line.ev = "Size" ->
         (IF Line.obs.out = "crash" THEN {"size_ok"}
          ELSE FailSize(Line.ty, cur.vals[Line.v + 1], Line.obs))
    [] Line.ev = "Encode" ->
         (IF Line.obs.out \in {"crash", "panic"} THEN {"enc_ok"}
          ELSE FailEncode(Line.ty, cur.vals[Line.v + 1], Line.buflen, Line.obs))
    [] Line.ev = "Decode" ->
         (IF Line.obs.out \in {"crash", "timeout"} THEN {"dec_nocrash"}
          ELSE FailDecode(Line.ty, Line.in, Line.dest, Line.obs) \cup
               (IF Line.orig >= 0
                THEN FailRoundTrip(Line.ty, cur.vals[Line.orig + 1], Line.in, Line.obs)
                ELSE {}))
    [] OTHER -> {}

Report(v) == PrintT(<<"REJECT", l, Line.sid, Line.step, Line.ev, v, PropsOf(v)>>)

TraceScenario ==
  /\ IsEvent("Scenario")
  /\ cur' = [vals |-> Line.vals]
  /\ l' = l + 1
  /\ UNCHANGED <<ndev, used, cfg, ncalls>>

\* a call whose observed outcome the specification allows
TraceCall ==
  /\ l <= Len(Trace) /\ Line.ev \in {"Size", "Encode", "Decode"}
  /\ LET v == Verdict IN
     /\ IF v = {} THEN ndev' = ndev ELSE Report(v) /\ ndev' = ndev + 1
     /\ Call(Line.ty)
  /\ l' = l + 1
  /\ UNCHANGED cur

\* lines that carry no obligation (GC, skipped steps, end marker)
TraceOther ==
  /\ l <= Len(Trace) /\ Line.ev \notin {"Scenario", "Size", "Encode", "Decode"}
  /\ l' = l + 1
  /\ UNCHANGED <<cur, ndev, used, cfg, ncalls>>

TraceNext == TraceScenario \/ TraceCall \/ TraceOther

TraceSpec == TraceInit /\ [][TraceNext]_traceVars

\* every line was consumed
TraceConsumed == TLCGet("stats").diameter - 1 = Len(Trace)
\* printed at the end so that the orchestrator can cross-check its own count
Summary == PrintT(<<"SUMMARY", Len(Trace), TLCGet("stats").diameter - 1>>)
TraceAccepted == Summary /\ TraceConsumed
=============================================================================
