------------------------------ MODULE MsgGenOps ------------------------------
(***************************************************************************)
(* The reference encoder with a chosen field order at every struct level.  *)
(***************************************************************************)
EXTENDS Codec

\* permutation of 1..n selected by ord
Perm(n, ord) ==
  CASE ord = "asc"  -> [j \in 1..n |-> j]
    [] ord = "desc" -> [j \in 1..n |-> n + 1 - j]
    [] ord = "rot"  -> [j \in 1..n |-> IF j = n THEN 1 ELSE j + 1]
    [] ord = "evod" -> [j \in 1..n |-> IF j <= n \div 2 THEN 2 * j ELSE 2 * (j - n \div 2) - 1]

RECURSIVE EncO(_, _, _)
EncO(t, w, ord) ==
  CASE t.k \in FixedKinds -> w
    [] t.k \in {"string", "binary"} -> BE4(Len(w)) \o w
    [] t.k \in ListKinds ->
         <<WT(t.e)>> \o BE4(Len(w)) \o Flat(Mat([i \in 1..Len(w) |-> EncO(t.e, w[i], ord)]))
    [] t.k = "map" ->
         <<WT(t.kt), WT(t.vt)>> \o BE4(Len(w)) \o
         Flat(Mat([i \in 1..Len(w) |-> EncO(t.kt, w[i][1], ord) \o EncO(t.vt, w[i][2], ord)]))
    [] t.k = "struct" ->
         LET ff == FieldsOf(t.s)
             pm == Perm(Len(ff), ord)
             one(j) == IF ff[pm[j]].key \in DOMAIN w.f
                       THEN <<WT(ff[pm[j]].t)>> \o BE2(ff[pm[j]].id) \o EncO(ff[pm[j]].t, w.f[ff[pm[j]].key], ord)
                       ELSE <<>>
             parts == Mat([j \in 1..Len(ff) |-> one(j)]) IN
         IF ord = "desc" THEN w.unk \o Flat(parts) \o <<TSTOP>>
         ELSE IF ord = "rot" /\ Len(ff) > 0 THEN parts[1] \o w.unk \o Flat(SubSeq(parts, 2, Len(parts))) \o <<TSTOP>>
         ELSE Flat(parts) \o w.unk \o <<TSTOP>>

=============================================================================
