------------------------------- MODULE MsgGen -------------------------------
(***************************************************************************)
(* Generator: messages written by the REFERENCE encoder (never by frugal), *)
(* for the decode-side properties.                                         *)
(*                                                                         *)
(* Input  (env VERIF_CASES, NDJSON): one case per line                     *)
(*    [cid, w (writer struct), val (Go value of w), ord, trail, mut]       *)
(* Output (env VERIF_OUT, NDJSON): [cid, msgs |-> << byte strings >>]      *)
(*                                                                         *)
(* ord selects the order of the fields at EVERY struct level of the        *)
(* message ("asc" ascending ids as the encoder writes, "desc" descending,  *)
(* "rot" rotated by one, "evod" even positions first); retained unknown    *)
(* bytes go last / first / after the first field / last accordingly.       *)
(* mut selects mutations of the resulting message:                         *)
(*   "none"     the message itself (plus trail)                            *)
(*   "prefix"   every proper prefix                                        *)
(*   "subst"    every single-byte substitution from a small alphabet       *)
(*   "len"      every 4-byte window overwritten with extreme lengths       *)
(* The state machine walks the case list; one state per case, so TLC's     *)
(* state count is the number of cases generated.                           *)
(***************************************************************************)
EXTENDS MsgGenOps

Cases == ndJsonDeserialize(IOEnv.VERIF_CASES)

Message(c) == EncO(StructT(c.w), ExpS(c.w, c.val), c.ord) \o c.trail

\* extents <<start, length>> of the top-level fields of a well-formed message
RECURSIVE TopFields(_, _, _)
TopFields(m, i, acc) ==
  IF m[i] = TSTOP THEN acc
  ELSE LET n == 3 + Skip(m[i], m, i + 3, 100000) IN TopFields(m, i + n, Append(acc, <<i, n>>))

\* "dupdrop": every message obtained by writing one top-level field twice and leaving another one out
\* (plus: only duplicated, only dropped)
DupDrop(m) ==
  LET fs == TopFields(m, 1, <<>>)
      n == Len(fs)
      piece(j) == SubSeq(m, fs[j][1], fs[j][1] + fs[j][2] - 1)
      build(dup, drop) == Flat([j \in 1..n |-> IF j = drop THEN <<>> ELSE IF j = dup THEN piece(j) \o piece(j) ELSE piece(j)]) \o <<TSTOP>>
      pairs == {<<a, b>> \in (0..n) \X (0..n) : a # b \/ a = 0} \ {<<0, 0>>} IN
  [x \in 1..Cardinality(pairs) |-> build(SetToSeq(pairs)[x][1], SetToSeq(pairs)[x][2])]

\* every legal type code, the gaps between them, the first illegal codes, extreme bytes
SubstAlphabet == {0, 1, 2, 3, 4, 5, 6, 7, 8, 9, 10, 11, 12, 13, 14, 15, 16, 17, 127, 128, 254, 255}
LenAlphabet == << <<255, 255, 255, 255>>, <<127, 255, 255, 255>>, <<0, 0, 0, 0>>, <<0, 1, 0, 0>>, <<128, 0, 0, 0>> >>

Mutants(m, mut) ==
  CASE mut = "none" -> <<m>>
    [] mut = "prefix" -> [n \in 1..Len(m) |-> SubSeq(m, 1, n - 1)]
    [] mut = "subst" ->
         LET cand == {<<i, x>> \in (1..Len(m)) \X (SubstAlphabet \cup {-1, -2}) :
                        \/ x >= 0 /\ x # m[i]
                        \/ x = -1 /\ m[i] < 255      \* +1
                        \/ x = -2 /\ m[i] > 0}       \* -1
             s == SetToSeq(cand) IN
         [j \in 1..Len(s) |->
            [m EXCEPT ![s[j][1]] = IF s[j][2] >= 0 THEN s[j][2]
                                   ELSE IF s[j][2] = -1 THEN m[s[j][1]] + 1 ELSE m[s[j][1]] - 1]]
    [] mut = "dupdrop" -> DupDrop(m)
    [] mut = "len" ->
         Flat(Mat([i \in 1..(IF Len(m) >= 4 THEN Len(m) - 3 ELSE 0) |->
                 [a \in 1..Len(LenAlphabet) |->
                    [j \in 1..Len(m) |-> IF j >= i /\ j < i + 4 THEN LenAlphabet[a][j - i + 1] ELSE m[j]]]]))

VARIABLE i
Init == i = 0
Next == i < Len(Cases) /\ i' = i + 1

Out == [c \in 1..Len(Cases) |-> [cid |-> Cases[c].cid, msgs |-> Mat(Mutants(Message(Cases[c]), Cases[c].mut))]]
Emit == ndJsonSerialize(IOEnv.VERIF_OUT, Out)
=============================================================================
