CONSTANT defaultInitValue = defaultInitValue
SPECIFICATION FairSpec
CONSTANTS
  Goroutines = {"g1", "g2", "g3"}
  Types = {"A", "B", "C", "X"}
  Nest <- NestDef
  Bad <- BadDefC
  Calls <- CallsDef
  FixedRollback = TRUE
PROPERTY EveryCallReturns
