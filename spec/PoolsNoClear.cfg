SPECIFICATION Spec
CONSTANTS
  ClearRequired = FALSE
  ResetUfs = TRUE
  ZeroTmp = TRUE
  MaxCalls = 3
INVARIANT HistoryIndependence
CHECK_DEADLOCK FALSE
