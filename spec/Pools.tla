-------------------------------- MODULE Pools --------------------------------
(***************************************************************************)
(* Layer B - the recycled state of the decoder and what keeps it from      *)
(* leaking into results (C07).                                             *)
(*                                                                         *)
(* Three pooled objects survive between calls (and between nested structs  *)
(* of one call):                                                           *)
(*   bits   the 65 536-bit presence set of required fields                 *)
(*   ufs    the unknown-field index (offset, length pairs) of a holder     *)
(*   tmp    the temporary value slot of a map<K, struct-by-value> type     *)
(* The code makes results independent of what they held before by          *)
(*   ClearRequired  clearing the required ids of a struct on entry         *)
(*   ResetUfs       resetting the index on entry                           *)
(*   ZeroTmp        zeroing the slot before every by-value struct value    *)
(* Each discipline is a constant, so that TLC shows both that the results  *)
(* are history independent WITH them and that they are not WITHOUT any one *)
(* of them (PoolsNoClear / PoolsNoReset / PoolsNoZero must yield a         *)
(* counterexample).                                                        *)
(*                                                                         *)
(* A message is abstract: which field ids it carries (with the declared    *)
(* wire type), how many unknown fields, which fields each map entry sets,  *)
(* and whether it is cut off after some of that.                           *)
(***************************************************************************)
EXTENDS Integers, Sequences, FiniteSets, TLC

CONSTANTS ClearRequired, ResetUfs, ZeroTmp, MaxCalls

Ids == {1, 2, 3}
\* two struct types using overlapping ids: A requires {1, 2}, B requires {2}; both have a holder
Required(t) == IF t = "A" THEN {1, 2} ELSE {2}
Types == {"A", "B"}

\* messages: [present |-> set of ids, unknown |-> 0..2, entries |-> sequence of sets of value-fields,
\*            cut |-> BOOLEAN (the input ends before STOP)]
Messages ==
  [present : SUBSET Ids, unknown : 0..2, entries : {<<>>, <<{1}>>, <<{1, 2}, {}>>, <<{}, {2}>>}, cut : BOOLEAN]

VARIABLES bits, ufs, tmp, calls, lastOut, lastRef
vars == <<bits, ufs, tmp, calls, lastOut, lastRef>>

Init == bits = {} /\ ufs = 0 /\ tmp = {} /\ calls = 0 /\ lastOut = "none" /\ lastRef = "none"

\* ---- what a fresh process would return: the reference ---------------------------------
RefResult(t, m) ==
  IF m.cut THEN [st |-> "err"]
  ELSE IF ~(Required(t) \subseteq m.present) THEN [st |-> "missing"]
  ELSE [st |-> "ok", held |-> m.unknown, vals |-> m.entries]

\* ---- what the code computes given the recycled state ---------------------------------------
\* map entries: every value is decoded into the same slot; fields an entry does not carry keep what the slot held
RECURSIVE DecodeEntries(_, _, _)
DecodeEntries(ents, slot, acc) ==
  IF ents = <<>> THEN [vals |-> acc, slot |-> slot]
  ELSE LET start == IF ZeroTmp THEN {} ELSE slot
           val == start \cup Head(ents) IN
       DecodeEntries(Tail(ents), val, Append(acc, val))

ImplResult(t, m) ==
  LET b0 == IF ClearRequired THEN bits \ Required(t) ELSE bits
      u0 == IF ResetUfs THEN 0 ELSE ufs
      de == DecodeEntries(m.entries, tmp, <<>>)
      b1 == b0 \cup m.present
      u1 == u0 + m.unknown IN
  [ res |-> IF m.cut THEN [st |-> "err"]
            ELSE IF ~(Required(t) \subseteq b1) THEN [st |-> "missing"]
            ELSE [st |-> "ok", held |-> u1, vals |-> de.vals],
    bits |-> b1, ufs |-> u1, tmp |-> de.slot ]

Decode(t, m) ==
  /\ calls < MaxCalls
  /\ LET r == ImplResult(t, m) IN
     /\ bits' = r.bits /\ ufs' = r.ufs /\ tmp' = r.tmp
     /\ lastOut' = r.res /\ lastRef' = RefResult(t, m)
  /\ calls' = calls + 1

Next == \E t \in Types, m \in Messages : Decode(t, m)
Spec == Init /\ [][Next]_vars

\* every call returns what the same call returns in a fresh process
HistoryIndependence == lastOut = lastRef
=============================================================================
