SPECIFICATION Spec
CONSTANTS
  ClearRequired = TRUE
  ResetUfs = TRUE
  ZeroTmp = FALSE
  MaxCalls = 3
INVARIANT HistoryIndependence
CHECK_DEADLOCK FALSE
