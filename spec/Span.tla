--------------------------------- MODULE Span ---------------------------------
(***************************************************************************)
(* Exhaustive model of the bump allocator: every sequence of up to MaxReq  *)
(* requests (size, align) drawn from the sizes and alignments that matter  *)
(* (around the 256-byte diversion and the 2048-byte block), for every      *)
(* class of block address the runtime may return.  Invariants:             *)
(*   Aligned   every returned address is aligned for its request           *)
(*   InBlock   every allocation lies inside its block                      *)
(*   Disjoint  allocations of one block never overlap                      *)
(***************************************************************************)
EXTENDS SpanOps, Sequences, FiniteSets, TLC

CONSTANTS MaxReq
Sizes == {1, 2, 3, 7, 8, 9, 31, 255, 256, 1000, 2040, 2041, 2047, 2048}
Aligns == {1, 2, 4, 8}
Bases == {0, 8, 16, 24, 4088}      \* mallocgc returns at least 8-byte aligned blocks

VARIABLES s, regs, cnt   \* regs: allocations <<lo, hi, align>> of the current block (relative), cnt: requests so far
vars == <<s, regs, cnt>>

Init == \E bm \in Bases : s = [p |-> 0, n |-> BlockSize, bm |-> bm] /\ regs = {} /\ cnt = 0

Serve(st, size, align) == <<ResultRel(st, size, align), ResultRel(st, size, align) + size, align>>

Malloc(size, align) ==
  /\ cnt < MaxReq
  /\ cnt' = cnt + 1
  /\ IF Fits(s, size, align)
     THEN /\ s' = After(s, size, align)
          /\ regs' = regs \cup {Serve(s, size, align)}
     ELSE \E bm \in Bases :       \* a new block, wherever the runtime puts it
            LET nb == [p |-> 0, n |-> NewBlockSize(size, align), bm |-> bm] IN
            /\ s' = After(nb, size, align)
            /\ regs' = {Serve(nb, size, align)}

Next == \E size \in Sizes, align \in Aligns : Malloc(size, align)
Spec == Init /\ [][Next]_vars

Aligned  == \A r \in regs : (s.bm + r[1]) % r[3] = 0
InBlock  == \A r \in regs : r[1] >= 0 /\ r[2] <= s.n
Disjoint == \A a, b \in regs : a = b \/ a[2] <= b[1] \/ b[2] <= a[1]
=============================================================================
