-------------------------------- MODULE Codec --------------------------------
(***************************************************************************)
(* Layer A - reference semantics of the codec.  Pure operators over Defs.  *)
(*                                                                         *)
(* Two value domains:                                                      *)
(*  Go values  (what the API takes and returns)                            *)
(*     fixed scalar   : byte tuple of its Go width (enum: 8 bytes)         *)
(*     string         : byte tuple                                         *)
(*     binary         : [nil, b]                                           *)
(*     list/set       : [nil, items]                                       *)
(*     map            : [nil, ents]   ents = sequence of <<key, value>>    *)
(*     struct         : [f |-> (key :> value), unk |-> bytes]              *)
(*     pointer to any of these : [p |-> 0] or [p |-> 1, v |-> pointee]     *)
(*  wire trees (what a message denotes)                                    *)
(*     scalar/string/binary : byte tuple of the wire width                 *)
(*     list/set : sequence of trees      map : sequence of <<tree, tree>>  *)
(*     struct   : [f |-> (key :> tree) for the fields present, unk]        *)
(***************************************************************************)
EXTENDS Schema

\* ---------------------------------------------------------------------------
\* Omission rule (C10) and the tree a value denotes
\* ---------------------------------------------------------------------------
\* Go's == on non-pointer scalar / string / binary values (binary: contents)
EqGo(t, a, b) == CASE t.k = "double" -> FloatEq(a, b)
                   [] t.k = "binary" -> a.b = b.b
                   [] OTHER -> a = b

\* is field f of struct s omitted by the encoder when it holds x
Omitted(s, f, x) ==
  /\ f.req = "optional"
  /\ \/ (f.t.ptr /\ x.p = 0)
     \/ (~f.t.ptr /\ f.t.k \in {"binary", "list", "set", "map"} /\ x.nil)
     \/ (~f.t.ptr /\ f.t.k \in ScalarKinds \cup {"binary"} /\ HasInit(s) /\ EqGo(f.t, f.def, x))

EmptyStructTree == [f |-> <<>>, unk |-> <<>>]

RECURSIVE ExpV(_, _), ExpE(_, _), ExpS(_, _)
\* tree of a non-pointer value
ExpV(t, v) ==
  CASE t.k \in FixedKinds -> (IF t.k = "enum" THEN SubSeq(v, 5, 8) ELSE v)
    [] t.k = "string" -> v
    [] t.k = "binary" -> v.b
    [] t.k \in ListKinds -> Mat([i \in 1..Len(v.items) |-> ExpE(t.e, v.items[i])])
    [] t.k = "map" -> Mat([i \in 1..Len(v.ents) |->
                         <<ExpE(t.kt, v.ents[i][1]), ExpE(t.vt, v.ents[i][2])>>])
    [] t.k = "struct" -> ExpS(t.s, v)
\* tree of a field value / element that is written (a nil pointer is only legal for structs)
ExpE(t, v) ==
  IF t.ptr THEN (IF v.p = 0 THEN EmptyStructTree ELSE ExpV(t, v.v)) ELSE ExpV(t, v)
ExpS(s, v) ==
  LET ff == FieldsOf(s)
      present == {j \in 1..Len(ff) : ~Omitted(s, ff[j], v.f[ff[j].key])} IN
  [f |-> MatF([key \in {ff[j].key : j \in present} |->
            LET j == CHOOSE j \in present : ff[j].key = key IN ExpE(ff[j].t, v.f[key])]),
   unk |-> IF HasUnk(s) THEN v.unk ELSE <<>>]

\* ---------------------------------------------------------------------------
\* Reference encoder and size (on trees)
\* ---------------------------------------------------------------------------
RECURSIVE EncW(_, _)
EncW(t, w) ==
  CASE t.k \in FixedKinds -> w
    [] t.k \in {"string", "binary"} -> BE4(Len(w)) \o w
    [] t.k \in ListKinds ->
         <<WT(t.e)>> \o BE4(Len(w)) \o Flat(Mat([i \in 1..Len(w) |-> EncW(t.e, w[i])]))
    [] t.k = "map" ->
         <<WT(t.kt), WT(t.vt)>> \o BE4(Len(w)) \o
         Flat(Mat([i \in 1..Len(w) |-> EncW(t.kt, w[i][1]) \o EncW(t.vt, w[i][2])]))
    [] t.k = "struct" ->
         LET ff == FieldsOf(t.s) IN
         Flat(Mat([j \in 1..Len(ff) |->
                 IF ff[j].key \in DOMAIN w.f
                 THEN <<WT(ff[j].t)>> \o BE2(ff[j].id) \o EncW(ff[j].t, w.f[ff[j].key])
                 ELSE <<>>])) \o w.unk \o <<TSTOP>>

\* written after the structure of a size walk: no byte string is built
RECURSIVE SizeW(_, _)
SizeW(t, w) ==
  CASE t.k \in FixedKinds -> WireW(t.k)
    [] t.k \in {"string", "binary"} -> 4 + Len(w)
    [] t.k \in ListKinds ->
         IF t.e.k \in FixedKinds THEN 5 + Len(w) * WireW(t.e.k)
         ELSE 5 + Sum(Mat([i \in 1..Len(w) |-> SizeW(t.e, w[i])]))
    [] t.k = "map" ->
         6 + (IF t.kt.k \in FixedKinds THEN Len(w) * WireW(t.kt.k)
              ELSE Sum(Mat([i \in 1..Len(w) |-> SizeW(t.kt, w[i][1])])))
           + (IF t.vt.k \in FixedKinds THEN Len(w) * WireW(t.vt.k)
              ELSE Sum(Mat([i \in 1..Len(w) |-> SizeW(t.vt, w[i][2])])))
    [] t.k = "struct" ->
         LET ff == FieldsOf(t.s) IN
         1 + Len(w.unk) +
         Sum(Mat([j \in 1..Len(ff) |->
                IF ff[j].key \in DOMAIN w.f THEN 3 + SizeW(ff[j].t, w.f[ff[j].key]) ELSE 0]))

StructT(s) == [k |-> "struct", s |-> s, ptr |-> FALSE]
Enc(s, v)  == EncW(StructT(s), ExpS(s, v))
Size(s, v) == SizeW(StructT(s), ExpS(s, v))

\* ---------------------------------------------------------------------------
\* Strict, schema-directed parser (C02): bytes -> tree
\*   result [ok |-> TRUE, w |-> tree, n |-> bytes consumed] or [ok |-> FALSE]
\* ---------------------------------------------------------------------------
PBad == [ok |-> FALSE]
POk(w, n) == [ok |-> TRUE, w |-> w, n |-> n]

RECURSIVE PT(_, _, _), PItems(_, _, _, _, _, _), PPairs(_, _, _, _, _, _, _), PFields(_, _, _, _, _, _)

PItems(te, b, i, n, acc, used) ==
  IF n = 0 THEN POk(acc, used)
  ELSE LET r == PT(te, b, i) IN
       IF ~r.ok THEN PBad ELSE PItems(te, b, i + r.n, n - 1, Append(acc, r.w), used + r.n)

PPairs(tk, tv, b, i, n, acc, used) ==
  IF n = 0 THEN POk(acc, used)
  ELSE LET rk == PT(tk, b, i) IN
       IF ~rk.ok THEN PBad
       ELSE LET rv == PT(tv, b, i + rk.n) IN
            IF ~rv.ok THEN PBad
            ELSE PPairs(tk, tv, b, i + rk.n + rv.n, n - 1, Append(acc, <<rk.w, rv.w>>),
                        used + rk.n + rv.n)

\* facc: fields parsed so far, unk: unknown bytes so far, used: bytes consumed so far
PFields(s, b, i, facc, unk, used) ==
  IF Remain(b, i) < 1 THEN PBad
  ELSE IF b[i] = TSTOP THEN POk([f |-> facc, unk |-> unk], used + 1)
  ELSE IF Remain(b, i) < 3 THEN PBad
  ELSE LET j == FieldIdx(s, U16(b, i + 1)) IN
       IF j # 0 /\ WT(FieldsOf(s)[j].t) = b[i] THEN
            LET f == FieldsOf(s)[j] IN
            IF f.key \in DOMAIN facc THEN PBad          \* each field at most once
            ELSE LET r == PT(f.t, b, i + 3) IN
                 IF ~r.ok THEN PBad
                 ELSE PFields(s, b, i + 3 + r.n, facc @@ (f.key :> r.w), unk, used + 3 + r.n)
       ELSE IF ~HasUnk(s) THEN PBad                     \* nothing but declared fields
       ELSE LET r == Skip(b[i], b, i + 3, 100000) IN
            IF r < 0 THEN PBad
            ELSE PFields(s, b, i + 3 + r, facc, unk \o Sub(b, i, 3 + r), used + 3 + r)

PT(t, b, i) ==
  LET k == t.k IN
  IF k \in FixedKinds THEN
       IF Remain(b, i) < WireW(k) THEN PBad
       ELSE IF k = "bool" /\ b[i] > 1 THEN PBad
       ELSE POk(Sub(b, i, WireW(k)), WireW(k))
  ELSE IF k \in {"string", "binary"} THEN
       LET r == SkipStr(b, i) IN IF r < 0 THEN PBad ELSE POk(Sub(b, i + 4, r - 4), r)
  ELSE IF k \in ListKinds THEN
       IF Remain(b, i) < 5 THEN PBad
       ELSE LET n == S32(b, i + 1) IN
            IF n < 0 \/ b[i] # WT(t.e) THEN PBad
            ELSE IF n > (Remain(b, i) - 5) \div MinWire(WT(t.e)) THEN PBad
            ELSE IF t.e.k \in FixedKinds \ {"bool"} THEN    \* fixed-width elements: no recursion needed
                 POk(Mat([j \in 1..n |-> Sub(b, i + 5 + (j - 1) * WireW(t.e.k), WireW(t.e.k))]), 5 + n * WireW(t.e.k))
            ELSE PItems(t.e, b, i + 5, n, <<>>, 5)
  ELSE IF k = "map" THEN
       IF Remain(b, i) < 6 THEN PBad
       ELSE LET n == S32(b, i + 2) IN
            IF n < 0 \/ b[i] # WT(t.kt) \/ b[i + 1] # WT(t.vt) THEN PBad
            ELSE IF n > (Remain(b, i) - 6) \div (MinWire(WT(t.kt)) + MinWire(WT(t.vt))) THEN PBad
            ELSE PPairs(t.kt, t.vt, b, i + 6, n, <<>>, 6)
  ELSE PFields(t.s, b, i, <<>>, <<>>, 0)

Parse(s, b) == PT(StructT(s), b, 1)

\* ---------------------------------------------------------------------------
\* Canonical forms: maps become bags, so that entry order is immaterial
\* ---------------------------------------------------------------------------
BagOf(c) ==  \* c: sequence of canonical entries
  LET s == {c[i] : i \in 1..Len(c)} IN
  [n |-> Len(c), s |-> s,
   m |-> IF Cardinality(s) = Len(c) THEN <<>>
         ELSE MatF([x \in s |-> Cardinality({i \in 1..Len(c) : c[i] = x})])]

RECURSIVE CanonW(_, _)
CanonW(t, w) ==
  CASE t.k \in ScalarKinds \cup {"binary"} -> w
    [] t.k \in ListKinds -> Mat([i \in 1..Len(w) |-> CanonW(t.e, w[i])])
    [] t.k = "map" -> BagOf(Mat([i \in 1..Len(w) |-> <<CanonW(t.kt, w[i][1]), CanonW(t.vt, w[i][2])>>]))
    [] t.k = "struct" ->
         [f |-> MatF([key \in DOMAIN w.f |-> CanonW(FieldByKey(t.s, key).t, w.f[key])]),
          unk |-> w.unk]

NormBool(v) == IF v[1] = 0 THEN <<0>> ELSE <<1>>

RECURSIVE CanonG(_, _), CanonGV(_, _)
CanonGV(t, v) ==
  CASE t.k = "bool" -> NormBool(v)
    [] t.k \in ScalarKinds \ {"bool"} -> v
    [] t.k = "binary" -> [nil |-> v.nil, b |-> v.b]
    [] t.k \in ListKinds -> [nil |-> v.nil, items |-> Mat([i \in 1..Len(v.items) |-> CanonG(t.e, v.items[i])])]
    [] t.k = "map" ->
         [nil |-> v.nil,
          bag |-> BagOf(Mat([i \in 1..Len(v.ents) |->
                           <<CanonG(t.kt, v.ents[i][1]), CanonG(t.vt, v.ents[i][2])>>]))]
    [] t.k = "struct" ->
         [f |-> MatF([key \in DOMAIN v.f |-> CanonG(FieldByKey(t.s, key).t, v.f[key])]),
          unk |-> v.unk]
CanonG(t, v) ==
  IF t.ptr THEN (IF v.p = 0 THEN [p |-> 0] ELSE [p |-> 1, v |-> CanonGV(t, v.v)])
  ELSE CanonGV(t, v)

SameG(t, a, b) == CanonG(t, a) = CanonG(t, b)
SameStruct(s, a, b) == SameG(StructT(s), a, b)

\* ---------------------------------------------------------------------------
\* Lenient reference decoder (C03, C05, C09, C10, C11): bytes x destination -> value
\*   [st |-> "ok", n, v, dup]            dup: some struct level repeated a field id
\*   [st |-> "bad"]                       not a well-formed message for the type
\*   [st |-> "missing", names |-> S]      first defect: a struct lacks required fields
\* Errors are reported in stream order (the first defect met wins).
\* ---------------------------------------------------------------------------
DBad == [st |-> "bad"]
DOk(v, n, dup, d) == [st |-> "ok", v |-> v, n |-> n, dup |-> dup, d |-> d, q |-> FALSE]
\* q: the message contains a dubious part (see SkipD): acceptance and rejection are both allowed
WithQ(r, q) == IF r.st = "ok" THEN [r EXCEPT !.q = @ \/ q] ELSE r

SignExt(w4) == (IF w4[1] >= 128 THEN <<255, 255, 255, 255>> ELSE <<0, 0, 0, 0>>) \o w4

\* duplicates of a key collapse, the last one wins; NaN keys never collapse
SameKey(tk, a, b) == IF tk.ptr THEN FALSE          \* pointer keys are distinct objects
                     ELSE IF tk.k = "double" THEN FloatEq(a, b) ELSE a = b
RECURSIVE DedupAcc(_, _, _, _)
DedupAcc(tk, ents, i, acc) ==
  IF i > Len(ents) THEN acc
  ELSE IF \E j \in (i + 1)..Len(ents) : SameKey(tk, ents[j][1], ents[i][1])
       THEN DedupAcc(tk, ents, i + 1, acc)
       ELSE DedupAcc(tk, ents, i + 1, Append(acc, ents[i]))
Dedup(tk, ents) == DedupAcc(tk, ents, 1, <<>>)

RECURSIVE DT(_, _, _, _), DV(_, _, _, _), DItems(_, _, _, _, _, _, _, _, _), DPairs(_, _, _, _, _, _, _, _, _, _),
          DFields(_, _, _, _, _, _, _, _, _, _)

DItems(te, b, i, n, acc, used, dup, md, q) ==
  IF n = 0 THEN WithQ(DOk(acc, used, dup, md), q)
  ELSE LET r == DT(te, b, i, ZeroOf(te)) IN
       IF r.st # "ok" THEN r
       ELSE DItems(te, b, i + r.n, n - 1, Append(acc, r.v), used + r.n, dup \/ r.dup, MaxI(md, r.d), q \/ r.q)

DPairs(tk, tv, b, i, n, acc, used, dup, md, q) ==
  IF n = 0 THEN WithQ(DOk(acc, used, dup, md), q)
  ELSE LET rk == DT(tk, b, i, ZeroOf(tk)) IN
       IF rk.st # "ok" THEN rk
       ELSE LET rv == DT(tv, b, i + rk.n, ZeroOf(tv)) IN
            IF rv.st # "ok" THEN rv
            ELSE DPairs(tk, tv, b, i + rk.n + rv.n, n - 1, Append(acc, <<rk.v, rv.v>>),
                        used + rk.n + rv.n, dup \/ rk.dup \/ rv.dup, MaxI(md, MaxI(rk.d, rv.d)), q \/ rk.q \/ rv.q)

\* cur: the struct value being filled, seen: keys with a well-typed occurrence so far
DFields(s, b, i, cur, seen, unk, used, dup, md, q) ==
  IF Remain(b, i) < 1 THEN DBad
  ELSE IF b[i] = TSTOP THEN
       LET ff == FieldsOf(s)
           miss == {j \in RequiredOf(s) : ff[j].key \notin seen} IN
       IF miss # {} THEN [st |-> "missing", names |-> {ff[j].name : j \in miss}]
       ELSE WithQ(DOk(IF HasUnk(s) /\ Len(unk) > 0 THEN [cur EXCEPT !.unk = unk] ELSE cur, used + 1, dup, md + 1), q)
  ELSE IF Remain(b, i) < 3 THEN DBad
  ELSE LET j == FieldIdx(s, U16(b, i + 1)) IN
       IF j # 0 /\ WT(FieldsOf(s)[j].t) = b[i] THEN
            LET f == FieldsOf(s)[j]
                r == DT(f.t, b, i + 3, cur.f[f.key]) IN
            IF r.st # "ok" THEN r
            ELSE DFields(s, b, i + 3 + r.n, [cur EXCEPT !.f[f.key] = r.v], seen \cup {f.key}, unk,
                         used + 3 + r.n, dup \/ r.dup \/ f.key \in seen, MaxI(md, r.d), q \/ r.q)
       ELSE LET r == SkipD(b[i], b, i + 3, 100000) IN
            IF r[1] < 0 THEN DBad
            ELSE DFields(s, b, i + 3 + r[1], cur, seen, unk \o Sub(b, i, 3 + r[1]), used + 3 + r[1], dup,
                         MaxI(md, r[2]), q \/ r[3])

\* non-pointer value of type t at b[i]; prior = what the destination held
DV(t, b, i, prior) ==
  LET k == t.k IN
  IF k \in FixedKinds THEN
       IF Remain(b, i) < WireW(k) THEN DBad
       ELSE DOk(IF k = "enum" THEN SignExt(Sub(b, i, 4)) ELSE Sub(b, i, WireW(k)), WireW(k), FALSE, 0)
  ELSE IF k \in {"string", "binary"} THEN
       LET r == SkipStr(b, i) IN
       IF r < 0 THEN DBad
       ELSE DOk(IF k = "string" THEN Sub(b, i + 4, r - 4) ELSE [nil |-> FALSE, b |-> Sub(b, i + 4, r - 4)],
                r, FALSE, 0)
  ELSE IF k \in ListKinds THEN
       IF Remain(b, i) < 5 THEN DBad
       ELSE LET n == S32(b, i + 1) IN
            IF n < 0 \/ b[i] # WT(t.e) THEN DBad
            ELSE IF n > (Remain(b, i) - 5) \div MinWire(WT(t.e)) THEN DBad
            ELSE IF t.e.k \in FixedKinds /\ ~t.e.ptr THEN   \* fixed-width elements: no recursion needed
                 LET w == WireW(t.e.k) IN
                 DOk([nil |-> FALSE,
                      items |-> Mat([j \in 1..n |-> IF t.e.k = "enum" THEN SignExt(Sub(b, i + 5 + (j - 1) * 4, 4))
                                                     ELSE Sub(b, i + 5 + (j - 1) * w, w)])],
                     5 + n * w, FALSE, 1)
            ELSE LET r == DItems(t.e, b, i + 5, n, <<>>, 5, FALSE, 0, FALSE) IN
                 IF r.st # "ok" THEN r ELSE [r EXCEPT !.v = [nil |-> FALSE, items |-> r.v], !.d = r.d + 1]
  ELSE IF k = "map" THEN
       IF Remain(b, i) < 6 THEN DBad
       ELSE LET n == S32(b, i + 2) IN
            IF n < 0 \/ b[i] # WT(t.kt) \/ b[i + 1] # WT(t.vt) THEN DBad
            ELSE IF n > (Remain(b, i) - 6) \div (MinWire(WT(t.kt)) + MinWire(WT(t.vt))) THEN DBad
            ELSE LET r == DPairs(t.kt, t.vt, b, i + 6, n, <<>>, 6, FALSE, 0, FALSE) IN
                 IF r.st # "ok" THEN r
                 ELSE [r EXCEPT !.v = [nil |-> FALSE, ents |-> Dedup(t.kt, r.v)], !.d = r.d + 1]
  ELSE \* nested struct: declared defaults first, then the fields of the message.  A struct the decoder
       \* creates (pointer, element, map value) starts from zero, so it starts from DefaultStruct; a by-value
       \* struct field of an existing destination keeps the fields its initialiser does not assign.
       DFields(t.s, b, i, InitOn(t.s, prior), {}, <<>>, 0, FALSE, 0, FALSE)

DT(t, b, i, prior) ==
  IF t.ptr THEN
       LET r == DV(t, b, i, ZeroOf([t EXCEPT !.ptr = FALSE])) IN
       IF r.st # "ok" THEN r ELSE [r EXCEPT !.v = [p |-> 1, v |-> r.v]]
  ELSE DV(t, b, i, prior)

\* top level: the destination is never re-initialised
\* the result's d is the nesting depth of the message (the top-level struct counts 1)
Dec(s, b, dest) == DFields(s, b, 1, dest, {}, <<>>, 0, FALSE, 0, FALSE)

\* nesting depth of a generically well-formed message
MsgDepth(b) == SkipD(TSTRUCT, b, 1, 100000)[2]

\* ---------------------------------------------------------------------------
\* Where the value of a string / binary field lies inside a message (C14): the path `keys`
\* leads through struct-typed fields to a string / binary field; the result is the 0-based
\* offset and the length of the payload of its last well-typed occurrence.
\* ---------------------------------------------------------------------------
RECURSIVE LocField(_, _, _, _, _), Locate(_, _, _, _)
LocField(s, b, i, key, found) ==
  IF b[i] = TSTOP THEN found
  ELSE LET j == FieldIdx(s, U16(b, i + 1))
           n == Skip(b[i], b, i + 3, 100000) IN
       LocField(s, b, i + 3 + n, key,
                IF j # 0 /\ WT(FieldsOf(s)[j].t) = b[i] /\ FieldsOf(s)[j].key = key THEN i + 3 ELSE found)
Locate(s, b, i, keys) ==
  LET p == LocField(s, b, i, keys[1], 0) IN
  IF p = 0 THEN [ok |-> FALSE, off |-> -1, len |-> -1]
  ELSE IF Len(keys) = 1 THEN [ok |-> TRUE, off |-> p + 3, len |-> S32(b, p)]
  ELSE Locate(FieldByKey(s, keys[1]).t.s, b, p, Tail(keys))

\* ---------------------------------------------------------------------------
\* Normal form of a value after encode + decode into a fresh, default-initialised
\* destination (C01)
\* ---------------------------------------------------------------------------
RECURSIVE NormV(_, _), NormE(_, _), NormS(_, _)
NormV(t, x) ==
  CASE t.k = "enum" -> SignExt(SubSeq(x, 5, 8))
    [] t.k \in ScalarKinds \ {"enum"} -> x
    [] t.k = "binary" -> [nil |-> FALSE, b |-> x.b]
    [] t.k \in ListKinds -> [nil |-> FALSE, items |-> Mat([i \in 1..Len(x.items) |-> NormE(t.e, x.items[i])])]
    [] t.k = "map" -> [nil |-> FALSE,
                       ents |-> Mat([i \in 1..Len(x.ents) |->
                                   <<NormE(t.kt, x.ents[i][1]), NormE(t.vt, x.ents[i][2])>>])]
    [] t.k = "struct" -> NormS(t.s, x)
NormE(t, x) ==
  IF t.ptr THEN [p |-> 1, v |-> IF x.p = 0 THEN DefaultStruct(t.s) ELSE NormV(t, x.v)]
  ELSE NormV(t, x)
NormS(s, v) ==
  LET ff == FieldsOf(s) IN
  [f |-> MatF([key \in DOMAIN v.f |->
            LET f == FieldByKey(s, key) IN
            IF Omitted(s, f, v.f[key])
            THEN (IF HasInit(s) THEN f.def ELSE ZeroOf(f.t))
            ELSE NormE(f.t, v.f[key])]),
   unk |-> IF HasUnk(s) THEN v.unk ELSE <<>>]

\* ---------------------------------------------------------------------------
\* Diagnostics: path of the first difference between two Go values (as canonical
\* forms differ); used only in the text of a rejection, never for a verdict.
\* ---------------------------------------------------------------------------
RECURSIVE DiffG(_, _, _), DiffGV(_, _, _)
DiffGV(t, a, b) ==
  IF CanonGV(t, a) = CanonGV(t, b) THEN <<>>
  ELSE CASE t.k \in ScalarKinds \cup {"binary"} -> <<t.k>>
    [] t.k \in ListKinds ->
         IF a.nil # b.nil THEN <<"nil">>
         ELSE IF Len(a.items) # Len(b.items) THEN <<"len", ToString(Len(a.items)), ToString(Len(b.items))>>
         ELSE LET i == CHOOSE i \in 1..Len(a.items) : CanonG(t.e, a.items[i]) # CanonG(t.e, b.items[i])
              IN <<"item", ToString(i)>> \o DiffG(t.e, a.items[i], b.items[i])
    [] t.k = "map" ->
         IF a.nil # b.nil THEN <<"nil">>
         ELSE IF Len(a.ents) # Len(b.ents) THEN <<"maplen", ToString(Len(a.ents)), ToString(Len(b.ents))>>
         ELSE LET bad == {i \in 1..Len(a.ents) :
                            ~\E j \in 1..Len(b.ents) :
                               /\ CanonG(t.kt, a.ents[i][1]) = CanonG(t.kt, b.ents[j][1])
                               /\ CanonG(t.vt, a.ents[i][2]) = CanonG(t.vt, b.ents[j][2])} IN
              IF bad = {} THEN <<"multiplicity">>
              ELSE LET i == CHOOSE i \in bad : TRUE
                       js == {j \in 1..Len(b.ents) : CanonG(t.kt, a.ents[i][1]) = CanonG(t.kt, b.ents[j][1])} IN
                   IF js = {} THEN <<"entry", ToString(i), "key-not-found">>
                   ELSE <<"entry", ToString(i), "value">> \o
                        DiffG(t.vt, a.ents[i][2], b.ents[CHOOSE j \in js : TRUE][2])
    [] t.k = "struct" ->
         IF a.unk # b.unk THEN <<"unk">>
         ELSE LET key == CHOOSE key \in DOMAIN a.f :
                   LET ft == FieldsOf(t.s)[CHOOSE j \in 1..Len(FieldsOf(t.s)) : FieldsOf(t.s)[j].key = key].t
                   IN CanonG(ft, a.f[key]) # CanonG(ft, b.f[key])
                  ft == FieldsOf(t.s)[CHOOSE j \in 1..Len(FieldsOf(t.s)) : FieldsOf(t.s)[j].key = key].t
              IN <<t.s, key>> \o DiffG(ft, a.f[key], b.f[key])
DiffG(t, a, b) ==
  IF t.ptr THEN (IF a.p # b.p THEN <<"ptr-nil">> ELSE IF a.p = 0 THEN <<>> ELSE DiffGV(t, a.v, b.v))
  ELSE DiffGV(t, a, b)
DiffStruct(s, a, b) == DiffG(StructT(s), a, b)
=============================================================================
