SPECIFICATION Spec
CONSTANTS
  ClearRequired = TRUE
  ResetUfs = TRUE
  ZeroTmp = TRUE
  MaxCalls = 3
INVARIANT HistoryIndependence
CHECK_DEADLOCK FALSE
