CONSTANT defaultInitValue = defaultInitValue
SPECIFICATION Spec
CONSTANTS
  Goroutines = {"g1", "g2", "g3"}
  Types = {"A", "B", "C", "X"}
  Nest <- NestDef
  Bad <- BadDefC
  Calls <- CallsDef
  FixedRollback = TRUE
INVARIANT PublishedComplete
INVARIANT RejectStable
INVARIANT MutexProtectsMaps
INVARIANT JournalsClean
PROPERTY LinksStable
