SPECIFICATION Spec
CONSTANTS
  ClearRequired = TRUE
  ResetUfs = FALSE
  ZeroTmp = TRUE
  MaxCalls = 3
INVARIANT HistoryIndependence
CHECK_DEADLOCK FALSE
