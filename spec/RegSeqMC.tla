------------------------------ MODULE RegSeqMC ------------------------------
(***************************************************************************)
(* The sequential registry machine of RegSeq, explored exhaustively on a   *)
(* small type graph with sharing, a cycle and directly rejected members,   *)
(* and turned into one implementation test per transition.                 *)
(*                                                                         *)
(* GSection is the generative twin of RegSeq!Section: given the registry   *)
(* state, a requested type and whether the argument is a pointer, it       *)
(* computes the events the code emits and the next state - with the real   *)
(* journal rollback (remove what the journals name), not "restore the old  *)
(* state".  TLC checks on every transition                                 *)
(*   ReplayAgrees       RegSeq!Section accepts the generated events and    *)
(*                      arrives at the same state (generator and replay    *)
(*                      are two readings of the same code)                 *)
(*   RollbackRestores   a rejected build leaves cache and links as before  *)
(* and on every state                                                      *)
(*   CacheClosed        every cached descriptor has all its nested nodes   *)
(*                      linked (no half-built descriptor survives)         *)
(*   RejectStable       nothing that reaches a rejected type is published  *)
(* Every transition (state reached by a shortest request path, request) is *)
(* printed; the orchestrator runs each as a scenario on a private copy of  *)
(* the graph and ApiTrace validates the recorded registry events and the   *)
(* outcomes of the calls.                                                  *)
(***************************************************************************)
EXTENDS RegSeq

CONSTANT MaxLen

Tops == {s \in DOMAIN Defs : "regmc" \in DOMAIN Defs[s]}
Bad  == {s \in DOMAIN Defs : "direct_invalid" \in DOMAIN Defs[s]}

Ev(k, nd) == [k |-> k, s |-> nd[1], p |-> nd[2]]

RECURSIVE GBuild(_, _), GNest(_, _, _)
GBuild(nd, c) ==     \* c: [cache, linked, jp, jl, evs]
  IF nd \in c.cache THEN [ok |-> TRUE, c |-> c]
  ELSE IF nd[1] \in Bad THEN [ok |-> FALSE, c |-> c]
  ELSE LET c1 == [c EXCEPT !.cache = @ \cup {nd}, !.jp = @ \cup {nd}, !.evs = Append(@, Ev("pf", nd))]
           r == GNest(NestSeq(nd[1]), 1, c1) IN
       IF r.ok THEN r ELSE [r EXCEPT !.c.cache = @ \ {nd}]
GNest(ns, j, c) ==
  IF j > Len(ns) THEN [ok |-> TRUE, c |-> c]
  ELSE IF ns[j] \in c.linked THEN GNest(ns, j + 1, c)
  ELSE LET r == GBuild(ns[j], c) IN
       IF ~r.ok THEN r
       ELSE GNest(ns, j + 1, [r.c EXCEPT !.linked = @ \cup {ns[j]}, !.jl = Append(@, ns[j]), !.evs = Append(@, Ev("link", ns[j]))])

\* st: [cache, linked, table]
GSection(st, s, byptr) ==
  LET top == <<s, FALSE>>
      ptop == <<s, TRUE>>
      lock == Ev("lock", top)
      unlock == Ev("unlock", top) IN
  IF <<s, byptr>> \in st.table THEN [st |-> st, evs |-> <<>>, kind |-> "fast"]       \* the lock-free lookup finds it: no section
  ELSE IF top \in st.table THEN [st |-> st, evs |-> <<lock, unlock>>, kind |-> "hit"]  \* *S asked for, only S published
  ELSE LET r == GBuild(top, [cache |-> st.cache, linked |-> st.linked, jp |-> {}, jl |-> <<>>, evs |-> <<lock>>]) IN
       IF r.ok THEN
            LET both == byptr /\ ptop \notin st.table IN
            [st |-> [cache |-> r.c.cache, linked |-> r.c.linked, table |-> st.table \cup {top} \cup (IF both THEN {ptop} ELSE {})],
             evs |-> r.c.evs \o <<Ev("store", top)>> \o (IF both THEN <<Ev("store", ptop)>> ELSE <<>>) \o <<unlock>>,
             kind |-> "built"]
       ELSE [st |-> [cache |-> r.c.cache \ r.c.jp, linked |-> r.c.linked \ {r.c.jl[i] : i \in 1..Len(r.c.jl)}, table |-> st.table],
             evs |-> r.c.evs \o <<[k |-> "rollback", s |-> "", p |-> FALSE, np |-> Cardinality(r.c.jp), nl |-> Len(r.c.jl)], unlock>>,
             kind |-> "rejected"]

VARIABLES st, reqs
vars == <<st, reqs>>
View == st

Init == st = [cache |-> {}, linked |-> {}, table |-> {}] /\ reqs = <<>>

AsRg(x) == [RegInit(0) EXCEPT !.cache = x.cache, !.linked = x.linked, !.table = x.table]

Next ==
  \E s \in Tops, byptr \in BOOLEAN :
    /\ Len(reqs) < MaxLen
    /\ LET g == GSection(st, s, byptr)
           rp == Section(AsRg(st), g.evs, 1) IN
       /\ Assert(g.kind = "fast" \/ (~rp.drift /\ rp.i = Len(g.evs) + 1 /\ rp.kind = g.kind
                                     /\ rp.rg.cache = g.st.cache /\ rp.rg.linked = g.st.linked /\ rp.rg.table = g.st.table),
                 <<"ReplayAgrees fails", reqs, s, byptr>>)
       /\ Assert(g.kind # "rejected" \/ (g.st.cache = st.cache /\ g.st.linked = st.linked),
                 <<"RollbackRestores fails", reqs, s, byptr>>)
       /\ PrintT(ToJson([tag |-> "EDGE", path |-> reqs, s |-> s, byptr |-> byptr, kind |-> g.kind, nev |-> Len(g.evs)]))
       /\ st' = g.st
       /\ reqs' = Append(reqs, [s |-> s, byptr |-> byptr])

Spec == Init /\ [][Next]_vars

\* ---- invariants ------------------------------------------------------------------------------------
RECURSIVE ReachS(_, _)
ReachS(ss, seen) == LET nx == {nd[1] : nd \in UNION {{NestSeq(x)[i] : i \in 1..Len(NestSeq(x))} : x \in ss}} \ seen IN
                    IF nx = {} THEN seen ELSE ReachS(nx, seen \cup nx)
Closure(s) == ReachS({s}, {s})

CacheClosed ==
  /\ \A nd \in st.cache : \A i \in 1..Len(NestSeq(nd[1])) : NestSeq(nd[1])[i] \in st.linked
  /\ \A nd \in st.linked : nd \in st.cache
RejectStable == \A nd \in st.table : Closure(nd[1]) \cap Bad = {}
PublishedBuilt == \A nd \in st.table : <<nd[1], FALSE>> \in st.cache
=============================================================================
