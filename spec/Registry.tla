------------------------------ MODULE Registry ------------------------------
(***************************************************************************)
(* Layer B - the descriptor registry of internal/reflect as it is written: *)
(*   descmap.go  Get  : one atomic load of the slot, then a scan of the    *)
(*                      immutable item list (lock-free)                    *)
(*               Set  : copy the item list, append / replace, atomic store *)
(*   desc.go     createStructDesc: lock, re-check, build + prefetch nested *)
(*                      types through the process-wide prefetch cache and  *)
(*                      the shared type nodes (tType.Sd links), journal of *)
(*                      what the build created, roll back on failure,      *)
(*                      publish, unlock                                    *)
(*   use              : after Get, walking the descriptor follows the Sd   *)
(*                      links of nested types WITHOUT the lock             *)
(* One PlusCal process per goroutine; every label is one atomic step of    *)
(* the code (one shared-memory access).                                    *)
(*                                                                         *)
(* Checked by TLC (Registry.cfg):                                          *)
(*   PublishedComplete  a descriptor obtained lock-free reaches no nil     *)
(*                      nested descriptor                                  *)
(*   MutexProtectsMaps  the two plain maps and the link writes are only    *)
(*                      touched by the lock holder                         *)
(*   LinksStable        a link reachable from a published descriptor is    *)
(*                      never written again (no read/write race with use)  *)
(*   RejectStable       a type that reaches an unsupported type is         *)
(*                      rejected on every call and never published         *)
(*   deadlock freedom, and (fair spec) every call returns                  *)
(***************************************************************************)
EXTENDS Integers, Sequences, FiniteSets, TLC

CONSTANTS Goroutines, Types, Nest, Bad, Calls, FixedRollback
\* Nest: type -> set of directly nested struct types; Bad: unsupported types;
\* Calls: goroutine -> sequence of types it uses; FixedRollback: TRUE = journal rollback
\* (the repaired code), FALSE = delete only the failing type's cache entry (the old code)

NULL == "null"

RECURSIVE Reach(_, _)
Reach(ts, seen) == LET nx == (UNION {Nest[t] : t \in ts}) \ seen IN
                   IF nx = {} THEN seen ELSE Reach(nx, seen \cup nx)
\* types reachable from t through nesting (including t)
Closure(t) == Reach({t}, {t})
Supported(t) == Closure(t) \cap Bad = {}

(* --algorithm Registry {
variables
  slot = [t \in Types |-> NULL],      \* published descriptor per type (atomic pointer)
  mu = NULL,                           \* holder of sdsmu
  pf = [t \in Types |-> NULL],        \* prefetchStructDescCache (plain map)
  link = [t \in Types |-> NULL],      \* tType.Sd of the shared type node for nested type t
  journalPf = {}, journalLk = {},      \* entries / links created by the build in progress
  result = [g \in Goroutines |-> <<>>],
  berr = [g \in Goroutines |-> FALSE]; \* error return of the build in progress

procedure Build(bt)
  variables todo = {}, n = NULL, failed = FALSE;
{
b0: \* newStructDescAndPrefetch: cache hit?
    if (pf[bt] # NULL) { return; };
b1: \* newStructDesc: resolving the fields fails for an unsupported type
    if (bt \in Bad) { berr[self] := TRUE; return; };
b2: pf[bt] := bt || journalPf := journalPf \cup {bt};
    todo := Nest[bt];
b3: while (todo # {}) {
      n := CHOOSE x \in todo : TRUE;
      todo := todo \ {n};
      \* fetchStructDesc: link already set?
      if (link[n] = NULL) {
b3c:    call Build(n);
b4:     if (berr[self]) {
          \* failure of a nested build: take back what this level did
          if (~FixedRollback) { pf[bt] := NULL; };
          return;
        };
b5:     link[n] := n || journalLk := journalLk \cup {n};
      };
    };
    return;
}

process (g \in Goroutines)
  variables ci = 1, ty = NULL, got = NULL, ok = TRUE;
{
c0: while (ci <= Len(Calls[self])) {
      ty := Calls[self][ci];
c1:   got := slot[ty];                       \* lock-free Get: one atomic load
      if (got = NULL) {
c2:     await mu = NULL; mu := self;         \* sdsmu.Lock()
c3:     got := slot[ty];                     \* second Get under the lock
        if (got = NULL) {
          berr[self] := FALSE;
          call Build(ty);
c4:       if (berr[self]) {
            \* rollbackPrefetch / (old code: nothing more)
            if (FixedRollback) {
              pf := [x \in Types |-> IF x \in journalPf THEN NULL ELSE pf[x]] ||
              link := [x \in Types |-> IF x \in journalLk THEN NULL ELSE link[x]];
            };
            journalPf := {} || journalLk := {};
            ok := FALSE;
          } else {
            journalPf := {} || journalLk := {};
c5:         slot[ty] := ty;                  \* sds.Set: copy-on-write store
            got := ty;
          };
        };
c6:     mu := NULL;                          \* deferred Unlock
      };
c7:   \* use of the descriptor, outside the lock: walks every nested link
      if (ok) {
        assert \A x \in Closure(got) \ {got} : link[x] # NULL;
        result[self] := Append(result[self], "ok");
      } else {
        result[self] := Append(result[self], "err");
      };
      ok := TRUE;
      ci := ci + 1;
    };
}
} *)
\* BEGIN TRANSLATION
CONSTANT defaultInitValue
VARIABLES pc, slot, mu, pf, link, journalPf, journalLk, result, berr, stack, 
          bt, todo, n, failed, ci, ty, got, ok

vars == << pc, slot, mu, pf, link, journalPf, journalLk, result, berr, stack, 
           bt, todo, n, failed, ci, ty, got, ok >>

ProcSet == (Goroutines)

Init == (* Global variables *)
        /\ slot = [t \in Types |-> NULL]
        /\ mu = NULL
        /\ pf = [t \in Types |-> NULL]
        /\ link = [t \in Types |-> NULL]
        /\ journalPf = {}
        /\ journalLk = {}
        /\ result = [g \in Goroutines |-> <<>>]
        /\ berr = [g \in Goroutines |-> FALSE]
        (* Procedure Build *)
        /\ bt = [ self \in ProcSet |-> defaultInitValue]
        /\ todo = [ self \in ProcSet |-> {}]
        /\ n = [ self \in ProcSet |-> NULL]
        /\ failed = [ self \in ProcSet |-> FALSE]
        (* Process g *)
        /\ ci = [self \in Goroutines |-> 1]
        /\ ty = [self \in Goroutines |-> NULL]
        /\ got = [self \in Goroutines |-> NULL]
        /\ ok = [self \in Goroutines |-> TRUE]
        /\ stack = [self \in ProcSet |-> << >>]
        /\ pc = [self \in ProcSet |-> "c0"]

b0(self) == /\ pc[self] = "b0"
            /\ IF pf[bt[self]] # NULL
                  THEN /\ pc' = [pc EXCEPT ![self] = Head(stack[self]).pc]
                       /\ todo' = [todo EXCEPT ![self] = Head(stack[self]).todo]
                       /\ n' = [n EXCEPT ![self] = Head(stack[self]).n]
                       /\ failed' = [failed EXCEPT ![self] = Head(stack[self]).failed]
                       /\ bt' = [bt EXCEPT ![self] = Head(stack[self]).bt]
                       /\ stack' = [stack EXCEPT ![self] = Tail(stack[self])]
                  ELSE /\ pc' = [pc EXCEPT ![self] = "b1"]
                       /\ UNCHANGED << stack, bt, todo, n, failed >>
            /\ UNCHANGED << slot, mu, pf, link, journalPf, journalLk, result, 
                            berr, ci, ty, got, ok >>

b1(self) == /\ pc[self] = "b1"
            /\ IF bt[self] \in Bad
                  THEN /\ berr' = [berr EXCEPT ![self] = TRUE]
                       /\ pc' = [pc EXCEPT ![self] = Head(stack[self]).pc]
                       /\ todo' = [todo EXCEPT ![self] = Head(stack[self]).todo]
                       /\ n' = [n EXCEPT ![self] = Head(stack[self]).n]
                       /\ failed' = [failed EXCEPT ![self] = Head(stack[self]).failed]
                       /\ bt' = [bt EXCEPT ![self] = Head(stack[self]).bt]
                       /\ stack' = [stack EXCEPT ![self] = Tail(stack[self])]
                  ELSE /\ pc' = [pc EXCEPT ![self] = "b2"]
                       /\ UNCHANGED << berr, stack, bt, todo, n, failed >>
            /\ UNCHANGED << slot, mu, pf, link, journalPf, journalLk, result, 
                            ci, ty, got, ok >>

b2(self) == /\ pc[self] = "b2"
            /\ /\ journalPf' = (journalPf \cup {bt[self]})
               /\ pf' = [pf EXCEPT ![bt[self]] = bt[self]]
            /\ todo' = [todo EXCEPT ![self] = Nest[bt[self]]]
            /\ pc' = [pc EXCEPT ![self] = "b3"]
            /\ UNCHANGED << slot, mu, link, journalLk, result, berr, stack, bt, 
                            n, failed, ci, ty, got, ok >>

b3(self) == /\ pc[self] = "b3"
            /\ IF todo[self] # {}
                  THEN /\ n' = [n EXCEPT ![self] = CHOOSE x \in todo[self] : TRUE]
                       /\ todo' = [todo EXCEPT ![self] = todo[self] \ {n'[self]}]
                       /\ IF link[n'[self]] = NULL
                             THEN /\ pc' = [pc EXCEPT ![self] = "b3c"]
                             ELSE /\ pc' = [pc EXCEPT ![self] = "b3"]
                       /\ UNCHANGED << stack, bt, failed >>
                  ELSE /\ pc' = [pc EXCEPT ![self] = Head(stack[self]).pc]
                       /\ todo' = [todo EXCEPT ![self] = Head(stack[self]).todo]
                       /\ n' = [n EXCEPT ![self] = Head(stack[self]).n]
                       /\ failed' = [failed EXCEPT ![self] = Head(stack[self]).failed]
                       /\ bt' = [bt EXCEPT ![self] = Head(stack[self]).bt]
                       /\ stack' = [stack EXCEPT ![self] = Tail(stack[self])]
            /\ UNCHANGED << slot, mu, pf, link, journalPf, journalLk, result, 
                            berr, ci, ty, got, ok >>

b3c(self) == /\ pc[self] = "b3c"
             /\ /\ bt' = [bt EXCEPT ![self] = n[self]]
                /\ stack' = [stack EXCEPT ![self] = << [ procedure |->  "Build",
                                                         pc        |->  "b4",
                                                         todo      |->  todo[self],
                                                         n         |->  n[self],
                                                         failed    |->  failed[self],
                                                         bt        |->  bt[self] ] >>
                                                     \o stack[self]]
             /\ todo' = [todo EXCEPT ![self] = {}]
             /\ n' = [n EXCEPT ![self] = NULL]
             /\ failed' = [failed EXCEPT ![self] = FALSE]
             /\ pc' = [pc EXCEPT ![self] = "b0"]
             /\ UNCHANGED << slot, mu, pf, link, journalPf, journalLk, result, 
                             berr, ci, ty, got, ok >>

b4(self) == /\ pc[self] = "b4"
            /\ IF berr[self]
                  THEN /\ IF ~FixedRollback
                             THEN /\ pf' = [pf EXCEPT ![bt[self]] = NULL]
                             ELSE /\ TRUE
                                  /\ pf' = pf
                       /\ pc' = [pc EXCEPT ![self] = Head(stack[self]).pc]
                       /\ todo' = [todo EXCEPT ![self] = Head(stack[self]).todo]
                       /\ n' = [n EXCEPT ![self] = Head(stack[self]).n]
                       /\ failed' = [failed EXCEPT ![self] = Head(stack[self]).failed]
                       /\ bt' = [bt EXCEPT ![self] = Head(stack[self]).bt]
                       /\ stack' = [stack EXCEPT ![self] = Tail(stack[self])]
                  ELSE /\ pc' = [pc EXCEPT ![self] = "b5"]
                       /\ UNCHANGED << pf, stack, bt, todo, n, failed >>
            /\ UNCHANGED << slot, mu, link, journalPf, journalLk, result, berr, 
                            ci, ty, got, ok >>

b5(self) == /\ pc[self] = "b5"
            /\ /\ journalLk' = (journalLk \cup {n[self]})
               /\ link' = [link EXCEPT ![n[self]] = n[self]]
            /\ pc' = [pc EXCEPT ![self] = "b3"]
            /\ UNCHANGED << slot, mu, pf, journalPf, result, berr, stack, bt, 
                            todo, n, failed, ci, ty, got, ok >>

Build(self) == b0(self) \/ b1(self) \/ b2(self) \/ b3(self) \/ b3c(self)
                  \/ b4(self) \/ b5(self)

c0(self) == /\ pc[self] = "c0"
            /\ IF ci[self] <= Len(Calls[self])
                  THEN /\ ty' = [ty EXCEPT ![self] = Calls[self][ci[self]]]
                       /\ pc' = [pc EXCEPT ![self] = "c1"]
                  ELSE /\ pc' = [pc EXCEPT ![self] = "Done"]
                       /\ ty' = ty
            /\ UNCHANGED << slot, mu, pf, link, journalPf, journalLk, result, 
                            berr, stack, bt, todo, n, failed, ci, got, ok >>

c1(self) == /\ pc[self] = "c1"
            /\ got' = [got EXCEPT ![self] = slot[ty[self]]]
            /\ IF got'[self] = NULL
                  THEN /\ pc' = [pc EXCEPT ![self] = "c2"]
                  ELSE /\ pc' = [pc EXCEPT ![self] = "c7"]
            /\ UNCHANGED << slot, mu, pf, link, journalPf, journalLk, result, 
                            berr, stack, bt, todo, n, failed, ci, ty, ok >>

c2(self) == /\ pc[self] = "c2"
            /\ mu = NULL
            /\ mu' = self
            /\ pc' = [pc EXCEPT ![self] = "c3"]
            /\ UNCHANGED << slot, pf, link, journalPf, journalLk, result, berr, 
                            stack, bt, todo, n, failed, ci, ty, got, ok >>

c3(self) == /\ pc[self] = "c3"
            /\ got' = [got EXCEPT ![self] = slot[ty[self]]]
            /\ IF got'[self] = NULL
                  THEN /\ berr' = [berr EXCEPT ![self] = FALSE]
                       /\ /\ bt' = [bt EXCEPT ![self] = ty[self]]
                          /\ stack' = [stack EXCEPT ![self] = << [ procedure |->  "Build",
                                                                   pc        |->  "c4",
                                                                   todo      |->  todo[self],
                                                                   n         |->  n[self],
                                                                   failed    |->  failed[self],
                                                                   bt        |->  bt[self] ] >>
                                                               \o stack[self]]
                       /\ todo' = [todo EXCEPT ![self] = {}]
                       /\ n' = [n EXCEPT ![self] = NULL]
                       /\ failed' = [failed EXCEPT ![self] = FALSE]
                       /\ pc' = [pc EXCEPT ![self] = "b0"]
                  ELSE /\ pc' = [pc EXCEPT ![self] = "c6"]
                       /\ UNCHANGED << berr, stack, bt, todo, n, failed >>
            /\ UNCHANGED << slot, mu, pf, link, journalPf, journalLk, result, 
                            ci, ty, ok >>

c4(self) == /\ pc[self] = "c4"
            /\ IF berr[self]
                  THEN /\ IF FixedRollback
                             THEN /\ /\ link' = [x \in Types |-> IF x \in journalLk THEN NULL ELSE link[x]]
                                     /\ pf' = [x \in Types |-> IF x \in journalPf THEN NULL ELSE pf[x]]
                             ELSE /\ TRUE
                                  /\ UNCHANGED << pf, link >>
                       /\ /\ journalLk' = {}
                          /\ journalPf' = {}
                       /\ ok' = [ok EXCEPT ![self] = FALSE]
                       /\ pc' = [pc EXCEPT ![self] = "c6"]
                  ELSE /\ /\ journalLk' = {}
                          /\ journalPf' = {}
                       /\ pc' = [pc EXCEPT ![self] = "c5"]
                       /\ UNCHANGED << pf, link, ok >>
            /\ UNCHANGED << slot, mu, result, berr, stack, bt, todo, n, failed, 
                            ci, ty, got >>

c5(self) == /\ pc[self] = "c5"
            /\ slot' = [slot EXCEPT ![ty[self]] = ty[self]]
            /\ got' = [got EXCEPT ![self] = ty[self]]
            /\ pc' = [pc EXCEPT ![self] = "c6"]
            /\ UNCHANGED << mu, pf, link, journalPf, journalLk, result, berr, 
                            stack, bt, todo, n, failed, ci, ty, ok >>

c6(self) == /\ pc[self] = "c6"
            /\ mu' = NULL
            /\ pc' = [pc EXCEPT ![self] = "c7"]
            /\ UNCHANGED << slot, pf, link, journalPf, journalLk, result, berr, 
                            stack, bt, todo, n, failed, ci, ty, got, ok >>

c7(self) == /\ pc[self] = "c7"
            /\ IF ok[self]
                  THEN /\ Assert(\A x \in Closure(got[self]) \ {got[self]} : link[x] # NULL, 
                                 "Failure of assertion at line 110, column 9.")
                       /\ result' = [result EXCEPT ![self] = Append(result[self], "ok")]
                  ELSE /\ result' = [result EXCEPT ![self] = Append(result[self], "err")]
            /\ ok' = [ok EXCEPT ![self] = TRUE]
            /\ ci' = [ci EXCEPT ![self] = ci[self] + 1]
            /\ pc' = [pc EXCEPT ![self] = "c0"]
            /\ UNCHANGED << slot, mu, pf, link, journalPf, journalLk, berr, 
                            stack, bt, todo, n, failed, ty, got >>

g(self) == c0(self) \/ c1(self) \/ c2(self) \/ c3(self) \/ c4(self)
              \/ c5(self) \/ c6(self) \/ c7(self)

(* Allow infinite stuttering to prevent deadlock on termination. *)
Terminating == /\ \A self \in ProcSet: pc[self] = "Done"
               /\ UNCHANGED vars

Next == (\E self \in ProcSet: Build(self))
           \/ (\E self \in Goroutines: g(self))
           \/ Terminating

Spec == Init /\ [][Next]_vars

Termination == <>(\A self \in ProcSet: pc[self] = "Done")

\* END TRANSLATION

\* ---- model instances (Registry.cfg, RegistryBad.cfg) -----------------------------------
NestDef == [t \in {"A", "B", "C", "X"} |->
              CASE t = "A" -> {"B", "C"} [] t = "B" -> {"A"} [] t = "C" -> {} [] t = "X" -> {"A"}]
BadDef == {}
BadDefC == {"C"}
CallsDef == [gg \in {"g1", "g2", "g3"} |->
               CASE gg = "g1" -> <<"A", "B">> [] gg = "g2" -> <<"B", "X">> [] gg = "g3" -> <<"X", "C">>]

Published == {t \in Types : slot[t] # NULL}

\* a descriptor obtained lock-free reaches no nil nested descriptor
PublishedComplete == \A t \in Published : \A x \in Closure(t) \ {t} : link[x] # NULL

\* unsupported definitions are never published, and every finished call got the sequential answer
RejectStable ==
  /\ \A t \in Published : Supported(t)
  /\ \A gg \in Goroutines : \A k \in 1..Len(result[gg]) :
        result[gg][k] = IF Supported(Calls[gg][k]) THEN "ok" ELSE "err"

\* the plain maps, the journals and the link writes are only touched by the lock holder
LockedLabels == {"b0", "b1", "b2", "b3", "b3c", "b4", "b5", "c3", "c4", "c5", "c6"}
MutexProtectsMaps == \A gg \in Goroutines : pc[gg] \in LockedLabels => mu = gg

\* a link that the use of a published descriptor follows is never written again
LinksStable == [][\A t \in Published : \A x \in Closure(t) \ {t} : link'[x] = link[x]]_vars

\* the journals are empty whenever nobody builds
JournalsClean == mu = NULL => journalPf = {} /\ journalLk = {}

EveryCallReturns == <>(\A gg \in Goroutines : pc[gg] = "Done")
FairSpec == Spec /\ \A gg \in Goroutines : WF_vars(g(gg) \/ Build(gg))
=============================================================================
