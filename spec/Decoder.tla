------------------------------- MODULE Decoder -------------------------------
(***************************************************************************)
(* Layer B - the decoder as the code runs it (internal/reflect/decoder.go  *)
(* after the repairs of DESIGN.md section 6), with LAZY INPUT.             *)
(*                                                                         *)
(* The total length of the input is chosen first (the decoder's guards     *)
(* depend on the number of remaining bytes); then every token the decoder  *)
(* reads - a field type byte, a field id, a length, a count, element type  *)
(* codes, a fixed-width value, a string payload - is chosen                *)
(* nondeterministically when it is read, from the finite set of byte       *)
(* patterns that matter at that point.  A path of this machine is          *)
(* therefore one concrete input, and TLC's breadth-first search enumerates *)
(* EVERY input over that token alphabet up to MaxLen bytes: every          *)
(* truncation point, every length / count class, every type-code class at  *)
(* every position, in every combination.                                   *)
(*                                                                         *)
(* The machine mirrors the code: explicit stack of loops (struct field     *)
(* loop, list loop, map loop with key / value phases), the count guards    *)
(* `l > remain / minWireSize` before allocating, the skipper for unknown   *)
(* fields (gopkg skipType) with its own frames, the required-field check   *)
(* after STOP.  Values are not built (conformance of values is the job of  *)
(* trace validation); the outcome class and the number of consumed bytes   *)
(* are.                                                                    *)
(*                                                                         *)
(* Checked by TLC:                                                         *)
(*   Refines   at every terminal state the outcome class (ok with n / bad  *)
(*             / missing) equals that of the reference decoder Dec (layer  *)
(*             A) on the very input that was generated, dubious inputs     *)
(*             excepted                                                    *)
(*   Bounded   the machine never reads past the chosen total length        *)
(* Terminal states are printed as JSON: they are the inputs replayed into  *)
(* the real decoder (C05).                                                 *)
(***************************************************************************)
EXTENDS Codec

CONSTANTS MaxLen
Ty == IOEnv.VERIF_TY       \* destination struct type

VARIABLES inp, total, stk, st, ncons, alloc
dvars == <<inp, total, stk, st, ncons, alloc>>

Remaining == total - Len(inp)

\* ---- token alphabets -------------------------------------------------------
LenAlphabet == {<<255, 255, 255, 255>>, <<0, 0, 0, 0>>, <<0, 0, 0, 1>>, <<0, 0, 0, 2>>, <<0, 0, 0, 3>>, <<127, 255, 255, 255>>}
Payload(w) == [i \in 1..w |-> 1]                  \* fixed-width values: 01 01 .. (bool TRUE, small ints)
StrBytes(l) == [i \in 1..l |-> 97]
DeclaredIds(s) == {FieldsOf(s)[j].id : j \in 1..Len(FieldsOf(s))}
\* one id the struct does not declare
UnknownId(s) == CHOOSE x \in 0..70 : x \notin DeclaredIds(s)
IdAlphabet(s) == {BE2(x) : x \in DeclaredIds(s) \cup {UnknownId(s)}}
\* type bytes worth trying for a field header of struct s
TypeAlphabet(s) == {TSTOP} \cup {WT(FieldsOf(s)[j].t) : j \in 1..Len(FieldsOf(s))} \cup {TBOOL, TSTRING, TLIST, TSTRUCT, TMAP, 1, 200}
\* element / key / value type codes worth trying where wt is expected
ElemAlphabet(wt) == {wt, IF wt = TI32 THEN TSTRING ELSE TI32, TSTRUCT, 1, 200}

\* ---- frames -----------------------------------------------------------------
\* what remains to be done, innermost last
FStruct(s)            == [k |-> "struct", s |-> s, seen |-> {}]
FList(t, left)        == [k |-> "list", t |-> t, left |-> left]
FMap(kt, vt, left)    == [k |-> "map", kt |-> kt, vt |-> vt, left |-> left, phase |-> "key"]
FSkipStruct(d)        == [k |-> "skstruct", d |-> d]
FSkipList(wt, left, d) == [k |-> "sklist", wt |-> wt, left |-> left, d |-> d]
FSkipMap(kw, vw, left, d) == [k |-> "skmap", kw |-> kw, vw |-> vw, left |-> left, phase |-> "key", d |-> d]

Top == stk[Len(stk)]
Pop == SubSeq(stk, 1, Len(stk) - 1)
Push(f) == Append(stk, f)
ReplaceTop(f) == [stk EXCEPT ![Len(stk)] = f]

Init ==
  /\ total \in 0..MaxLen
  /\ inp = <<>> /\ stk = <<FStruct(Ty)>> /\ st = "run" /\ ncons = 0 /\ alloc = 0

\* the input ends inside the token the decoder wants next
Truncated(w) == Remaining < w
Fail(cls) == /\ st' = cls
             /\ inp' = inp \o [i \in 1..Remaining |-> 0]     \* whatever follows: zeros
             /\ UNCHANGED <<total, stk, ncons, alloc>>

\* a value finished: continue with the enclosing loop
Continue(stack, consumed) ==
  /\ inp' = consumed /\ stk' = stack /\ UNCHANGED <<total, st, ncons, alloc>>
\* the same, after the decoder allocated `units` bytes (abstract element sizes: string byte 1,
\* list element 8, map entry 16)
ContinueAlloc(stack, consumed, units) ==
  /\ inp' = consumed /\ stk' = stack /\ alloc' = alloc + units /\ UNCHANGED <<total, st, ncons>>

\* ---- the struct field loop: type byte, id, dispatch ----------------------------------
StructStep ==
  /\ st = "run" /\ Top.k = "struct"
  /\ LET s == Top.s IN
     IF Truncated(1) THEN Fail("bad")
     ELSE \E tb \in TypeAlphabet(s) :
       IF tb = TSTOP THEN
            LET ff == FieldsOf(s)
                miss == {j \in RequiredOf(s) : ff[j].key \notin Top.seen} IN
            IF miss # {} THEN /\ st' = "missing" /\ inp' = inp \o <<0>> \o [i \in 1..(Remaining - 1) |-> 0]
                              /\ UNCHANGED <<total, stk, ncons, alloc>>
            ELSE IF Len(stk) = 1 THEN   \* top-level STOP: success, trailing bytes are ignored
                 /\ st' = "ok" /\ ncons' = Len(inp) + 1
                 /\ inp' = inp \o <<0>> \o [i \in 1..(Remaining - 1) |-> 9]
                 /\ UNCHANGED <<total, stk, alloc>>
            ELSE Continue(Pop, inp \o <<0>>)
       ELSE IF Remaining < 3 THEN /\ st' = "bad" /\ inp' = inp \o <<tb>> \o [i \in 1..(Remaining - 1) |-> 0]
                                  /\ UNCHANGED <<total, stk, ncons, alloc>>
       ELSE \E idb \in IdAlphabet(s) :
            LET j == FieldIdx(s, U16(idb, 1))
                pre == inp \o <<tb>> \o idb IN
            IF j # 0 /\ WT(FieldsOf(s)[j].t) = tb THEN
                 \* a known field with the declared wire type
                 LET f == FieldsOf(s)[j]
                     stack == ReplaceTop([Top EXCEPT !.seen = @ \cup {f.key}]) IN
                 Continue(Append(stack, [k |-> "value", t |-> f.t]), pre)
            ELSE \* unknown id or other wire type: the skipper (its own depth budget of 64)
                 Continue(Append(stk, [k |-> "skip", wt |-> tb, d |-> 64]), pre)

\* ---- a value of a schema type -----------------------------------------------------------
ValueStep ==
  /\ st = "run" /\ Top.k = "value"
  /\ LET t == Top.t
         k == t.k IN
     IF k \in FixedKinds THEN
          IF Truncated(WireW(k)) THEN Fail("bad") ELSE Continue(Pop, inp \o Payload(WireW(k)))
     ELSE IF k \in {"string", "binary"} THEN
          IF Truncated(4) THEN Fail("bad")
          ELSE \E lb \in LenAlphabet :
               LET l == S32(lb, 1) IN
               IF l < 0 \/ l > Remaining - 4 THEN /\ st' = "bad" /\ inp' = inp \o lb \o [i \in 1..(Remaining - 4) |-> 0]
                                                  /\ UNCHANGED <<total, stk, ncons, alloc>>
               ELSE ContinueAlloc(Pop, inp \o lb \o StrBytes(l), l)
     ELSE IF k \in ListKinds THEN
          IF Truncated(5) THEN Fail("bad")
          ELSE \E eb \in ElemAlphabet(WT(t.e)), lb \in LenAlphabet :
               LET l == S32(lb, 1)
                   rem == Remaining - 5 IN
               IF l < 0 \/ eb # WT(t.e) \/ (l > 0 /\ l > rem \div MinWire(WT(t.e)))
               THEN /\ st' = "bad" /\ inp' = inp \o <<eb>> \o lb \o [i \in 1..rem |-> 0] /\ UNCHANGED <<total, stk, ncons, alloc>>
               ELSE IF l = 0 THEN Continue(Pop, inp \o <<eb>> \o lb)
               ELSE ContinueAlloc(Append(Pop, FList(t.e, l)), inp \o <<eb>> \o lb, 8 * l)
     ELSE IF k = "map" THEN
          IF Truncated(6) THEN Fail("bad")
          ELSE \E kb \in ElemAlphabet(WT(t.kt)), vb \in ElemAlphabet(WT(t.vt)), lb \in LenAlphabet :
               LET l == S32(lb, 1)
                   rem == Remaining - 6 IN
               IF l < 0 \/ kb # WT(t.kt) \/ vb # WT(t.vt) \/ l > rem \div (MinWire(WT(t.kt)) + MinWire(WT(t.vt)))
               THEN /\ st' = "bad" /\ inp' = inp \o <<kb, vb>> \o lb \o [i \in 1..rem |-> 0] /\ UNCHANGED <<total, stk, ncons, alloc>>
               ELSE IF l = 0 THEN Continue(Pop, inp \o <<kb, vb>> \o lb)
               ELSE ContinueAlloc(Append(Pop, FMap(t.kt, t.vt, l)), inp \o <<kb, vb>> \o lb, 16 * l)
     ELSE \* nested struct
          Continue(Append(Pop, FStruct(t.s)), inp)

ListStep ==
  /\ st = "run" /\ Top.k = "list"
  /\ IF Top.left = 0 THEN Continue(Pop, inp)
     ELSE Continue(Append(ReplaceTop([Top EXCEPT !.left = @ - 1]), [k |-> "value", t |-> Top.t]), inp)

MapStep ==
  /\ st = "run" /\ Top.k = "map"
  /\ IF Top.left = 0 THEN Continue(Pop, inp)
     ELSE IF Top.phase = "key"
          THEN Continue(Append(ReplaceTop([Top EXCEPT !.phase = "val"]), [k |-> "value", t |-> Top.kt]), inp)
          ELSE Continue(Append(ReplaceTop([Top EXCEPT !.phase = "key", !.left = @ - 1]), [k |-> "value", t |-> Top.vt]), inp)

\* ---- the skipper (gopkg skipType): generic, type codes from the input ----------------------
SkipStep ==
  /\ st = "run" /\ Top.k = "skip"
  /\ LET wt == Top.wt
         d == Top.d IN
     IF wt \notin LegalTypes \/ d = 0 THEN Fail("bad")
     ELSE IF FixedW(wt) > 0 THEN
          IF Truncated(FixedW(wt)) THEN Fail("bad") ELSE Continue(Pop, inp \o Payload(FixedW(wt)))
     ELSE IF wt = TSTRING THEN
          IF Truncated(4) THEN Fail("bad")
          ELSE \E lb \in LenAlphabet :
               LET l == S32(lb, 1) IN
               IF l < 0 \/ l > Remaining - 4 THEN /\ st' = "bad" /\ inp' = inp \o lb \o [i \in 1..(Remaining - 4) |-> 0]
                                                  /\ UNCHANGED <<total, stk, ncons, alloc>>
               ELSE Continue(Pop, inp \o lb \o StrBytes(l))
     ELSE IF wt = TSTRUCT THEN Continue(Append(Pop, FSkipStruct(d - 1)), inp)
     ELSE IF wt = TMAP THEN
          IF Truncated(6) THEN Fail("bad")
          ELSE \E kb \in {TI32, TSTRING, TSTRUCT, 200}, vb \in {TBOOL, TSTRING, TLIST, 1}, lb \in LenAlphabet :
               LET l == S32(lb, 1)
                   rem == Remaining - 6
                   pre == inp \o <<kb, vb>> \o lb IN
               IF l < 0 THEN /\ st' = "bad" /\ inp' = pre \o [i \in 1..rem |-> 0] /\ UNCHANGED <<total, stk, ncons, alloc>>
               ELSE IF l = 0 THEN
                    \* no element is read: illegal codes are "dubious" (either outcome allowed) - excluded here
                    IF kb \in LegalTypes /\ vb \in LegalTypes THEN Continue(Pop, pre)
                    ELSE /\ st' = "dubious" /\ inp' = pre \o [i \in 1..rem |-> 0] /\ UNCHANGED <<total, stk, ncons, alloc>>
               ELSE IF FixedW(kb) > 0 /\ FixedW(vb) > 0 THEN
                    (IF l > rem \div (FixedW(kb) + FixedW(vb))
                     THEN /\ st' = "bad" /\ inp' = pre \o [i \in 1..rem |-> 0] /\ UNCHANGED <<total, stk, ncons, alloc>>
                     ELSE Continue(Pop, pre \o Payload(l * (FixedW(kb) + FixedW(vb)))))
               ELSE IF l > rem THEN /\ st' = "bad" /\ inp' = pre \o [i \in 1..rem |-> 0] /\ UNCHANGED <<total, stk, ncons, alloc>>
               ELSE Continue(Append(Pop, FSkipMap(kb, vb, l, d - 1)), pre)
     ELSE \* list / set
          IF Truncated(5) THEN Fail("bad")
          ELSE \E eb \in {TI32, TBOOL, TSTRING, TSTRUCT, TLIST, 1, 200}, lb \in LenAlphabet :
               LET l == S32(lb, 1)
                   rem == Remaining - 5
                   pre == inp \o <<eb>> \o lb IN
               IF l < 0 THEN /\ st' = "bad" /\ inp' = pre \o [i \in 1..rem |-> 0] /\ UNCHANGED <<total, stk, ncons, alloc>>
               ELSE IF l = 0 THEN
                    IF eb \in LegalTypes THEN Continue(Pop, pre)
                    ELSE /\ st' = "dubious" /\ inp' = pre \o [i \in 1..rem |-> 0] /\ UNCHANGED <<total, stk, ncons, alloc>>
               ELSE IF FixedW(eb) > 0 THEN
                    (IF l > rem \div FixedW(eb)
                     THEN /\ st' = "bad" /\ inp' = pre \o [i \in 1..rem |-> 0] /\ UNCHANGED <<total, stk, ncons, alloc>>
                     ELSE Continue(Pop, pre \o Payload(l * FixedW(eb))))
               ELSE IF l > rem THEN /\ st' = "bad" /\ inp' = pre \o [i \in 1..rem |-> 0] /\ UNCHANGED <<total, stk, ncons, alloc>>
               ELSE Continue(Append(Pop, FSkipList(eb, l, d - 1)), pre)

SkipStructStep ==
  /\ st = "run" /\ Top.k = "skstruct"
  /\ IF Truncated(1) THEN Fail("bad")
     ELSE \E tb \in {TSTOP, TI32, TSTRING, TSTRUCT, TLIST, 1, 200} :
          IF tb = TSTOP THEN Continue(Pop, inp \o <<0>>)
          ELSE IF Remaining < 3 THEN /\ st' = "bad" /\ inp' = inp \o <<tb>> \o [i \in 1..(Remaining - 1) |-> 0]
                                     /\ UNCHANGED <<total, stk, ncons, alloc>>
          ELSE Continue(Append(stk, [k |-> "skip", wt |-> tb, d |-> Top.d]), inp \o <<tb, 0, 1>>)

SkipListStep ==
  /\ st = "run" /\ Top.k = "sklist"
  /\ IF Top.left = 0 THEN Continue(Pop, inp)
     ELSE Continue(Append(ReplaceTop([Top EXCEPT !.left = @ - 1]), [k |-> "skip", wt |-> Top.wt, d |-> Top.d]), inp)

SkipMapStep ==
  /\ st = "run" /\ Top.k = "skmap"
  /\ IF Top.left = 0 THEN Continue(Pop, inp)
     ELSE IF Top.phase = "key"
          THEN Continue(Append(ReplaceTop([Top EXCEPT !.phase = "val"]), [k |-> "skip", wt |-> Top.kw, d |-> Top.d]), inp)
          ELSE Continue(Append(ReplaceTop([Top EXCEPT !.phase = "key", !.left = @ - 1]), [k |-> "skip", wt |-> Top.vw, d |-> Top.d]), inp)

Next == StructStep \/ ValueStep \/ ListStep \/ MapStep \/ SkipStep \/ SkipStructStep \/ SkipListStep \/ SkipMapStep

Spec == Init /\ [][Next]_dvars

\* ---- properties -------------------------------------------------------------------------
Bounded == Len(inp) <= total
\* what the decoder allocates is proportional to the input (a corrupted count cannot blow it up)
AllocBounded == alloc <= 16 * total

\* outcome class of the reference decoder (layer A) on a complete input
RefClass(b) ==
  LET r == Dec(Ty, b, ZeroStruct(Ty)) IN
  IF r.st = "ok" THEN (IF r.q THEN <<"dubious", 0>> ELSE <<"ok", r.n>>) ELSE <<r.st, 0>>

Refines ==
  st = "run" \/
  LET rc == RefClass(inp) IN
  \/ st = "dubious"                         \* either outcome allowed (and the reference agrees it is dubious or bad)
  \/ rc[1] = "dubious"
  \/ (st = "ok" /\ rc = <<"ok", ncons>>)
  \/ (st \in {"bad", "missing"} /\ rc[1] = st)

\* terminal states are the generated inputs (printed once per terminal state by the view below)
Emit == st = "run" \/ PrintT(ToJson([tag |-> "INPUT", st |-> st, n |-> ncons, bytes |-> inp]))
=============================================================================
