------------------------------- MODULE TagLang -------------------------------
(***************************************************************************)
(* Layer A - the definition language: which schema a Go struct definition  *)
(* denotes, and which definitions are outside the language (C12, C13).     *)
(*                                                                         *)
(* A definition is given as data (the "shape" of a Go struct):             *)
(*   [fields |-> << [name, exported, anon, gt, ftag, ttag] >>]             *)
(* name: bytes; gt: Go type tree; ftag / ttag: the VALUE of the `frugal` / *)
(* `thrift` struct tag as bytes, or <<-1>> when the tag is absent.         *)
(* Go type tree: [g |-> kind, name |-> bytes (type name, <<>> if unnamed),  *)
(*                sname |-> the same name as a string (struct types)]       *)
(*   plus e (slice / ptr / array element), k and v (map).                  *)
(*   kinds: "bool" "int" "int8" "int16" "int32" "int64" "float64" "string" *)
(*          "uint8" ... (unsupported) "slice" "map" "ptr" "struct" "other" *)
(*                                                                         *)
(* Derive(shape) = [ok |-> TRUE, fields |-> << [id, req, t, nocopy, name] >>*)
(*                  sorted by id]  or  [ok |-> FALSE, why |-> class]       *)
(* where t is a type record in the format of Schema.tla.                   *)
(***************************************************************************)
EXTENDS Integers, Sequences, FiniteSets, TLC, SequencesExt

Absent == <<-1>>

\* ---- characters -----------------------------------------------------------
IsSpace(c)  == c \in {32, 9, 10, 11, 12, 13, 133, 160}    \* unicode.IsSpace on a Latin-1 byte
IsDigit(c)  == c >= 48 /\ c <= 57
IsIdent0(c) == c = 95 \/ (c >= 97 /\ c <= 122) \/ (c >= 65 /\ c <= 90)
IsIdent(c)  == IsIdent0(c) \/ IsDigit(c)

Str(s) == s   \* byte tuples are written out with Bytes("...") by the generator; no string ops here

\* ---- splitting the tag value at commas, trimming spaces ----------------------
RECURSIVE SplitAcc(_, _, _, _)
SplitAcc(s, i, cur, acc) ==
  IF i > Len(s) THEN Append(acc, cur)
  ELSE IF s[i] = 44 THEN SplitAcc(s, i + 1, <<>>, Append(acc, cur))
  ELSE SplitAcc(s, i + 1, Append(cur, s[i]), acc)
Split(s) == SplitAcc(s, 1, <<>>, <<>>)

\* strings.TrimSpace: leading / trailing Unicode white space (as bytes < 256)
RECURSIVE TrimL(_), TrimR(_)
TrimL(s) == IF Len(s) > 0 /\ IsSpace(s[1]) THEN TrimL(Tail(s)) ELSE s
TrimR(s) == IF Len(s) > 0 /\ IsSpace(s[Len(s)]) THEN TrimR(SubSeq(s, 1, Len(s) - 1)) ELSE s
Trim(s) == TrimR(TrimL(s))

\* frugal tag first; for the thrift tag the first element (the field name) is dropped
TagParts(f) ==
  IF f.ftag # Absent THEN [found |-> TRUE, parts |-> [i \in 1..Len(Split(f.ftag)) |-> Trim(Split(f.ftag)[i])]]
  ELSE IF f.ttag # Absent THEN [found |-> TRUE, parts |-> [i \in 1..(Len(Split(f.ttag)) - 1) |-> Trim(Split(f.ttag)[i + 1])]]
  ELSE [found |-> FALSE, parts |-> <<>>]

\* strconv.ParseUint(s, 10, 16): decimal digits only, value <= 65535; -1 if invalid
RECURSIVE NumAcc(_, _, _)
NumAcc(s, i, acc) ==
  IF i > Len(s) THEN acc
  ELSE IF ~IsDigit(s[i]) THEN -1
  ELSE LET n == acc * 10 + (s[i] - 48) IN IF n > 65535 THEN -1 ELSE NumAcc(s, i + 1, n)
ParseId(s) == IF Len(s) = 0 THEN -1 ELSE NumAcc(s, 1, 0)

B(str) == str  \* placeholder to keep call sites readable

W_default  == <<100, 101, 102, 97, 117, 108, 116>>
W_required == <<114, 101, 113, 117, 105, 114, 101, 100>>
W_optional == <<111, 112, 116, 105, 111, 110, 97, 108>>
W_nocopy   == <<110, 111, 99, 111, 112, 121>>
W_set      == <<115, 101, 116>>
W_list     == <<108, 105, 115, 116>>
W_map      == <<109, 97, 112>>
W_struct   == <<115, 116, 114, 117, 99, 116>>
W_bool     == <<98, 111, 111, 108>>
W_i8       == <<105, 56>>
W_byte     == <<98, 121, 116, 101>>
W_i16      == <<105, 49, 54>>
W_i32      == <<105, 51, 50>>
W_i64      == <<105, 54, 52>>
W_double   == <<100, 111, 117, 98, 108, 101>>
W_string   == <<115, 116, 114, 105, 110, 103>>
W_binary   == <<98, 105, 110, 97, 114, 121>>

\* ---- tokens of a type descriptor ------------------------------------------------
\* ReadTok(s, i) = [tok, i] : skip spaces; an identifier or a single character; tok = <<>> at EOF
RECURSIVE SkipSp(_, _), IdentEnd(_, _)
SkipSp(s, i) == IF i <= Len(s) /\ IsSpace(s[i]) THEN SkipSp(s, i + 1) ELSE i
IdentEnd(s, i) == IF i <= Len(s) /\ IsIdent(s[i]) THEN IdentEnd(s, i + 1) ELSE i
ReadTok(s, i) ==
  LET p == SkipSp(s, i) IN
  IF p > Len(s) THEN [tok |-> <<>>, i |-> p]
  ELSE IF IsIdent0(s[p]) THEN [tok |-> SubSeq(s, p, IdentEnd(s, p + 1) - 1), i |-> IdentEnd(s, p + 1)]
  ELSE [tok |-> <<s[p]>>, i |-> p + 1]

\* ---- the type descriptor matched against the Go type ----------------------------------
\* kind of the basic (non composite) Go kinds -> schema kind, "" if unsupported
BasicKind(g) ==
  CASE g = "bool" -> "bool" [] g = "int8" -> "i8" [] g = "int16" -> "i16" [] g = "int32" -> "i32"
    [] g = "int64" -> "i64" [] g = "int" -> "i64" [] g = "float64" -> "double" [] g = "string" -> "string"
    [] OTHER -> ""

Keywords(k) ==
  CASE k = "bool" -> {W_bool} [] k = "i8" -> {W_i8, W_byte} [] k = "i16" -> {W_i16} [] k = "i32" -> {W_i32}
    [] k = "i64" -> {W_i64} [] k = "double" -> {W_double} [] k = "string" -> {W_string}
    [] k = "binary" -> {W_binary} [] k = "struct" -> {W_struct} [] k = "map" -> {W_map}

TBad(why) == [ok |-> FALSE, why |-> why]
TOk(t, i) == [ok |-> TRUE, t |-> t, i |-> i]

IsKeyT(t) == (~t.ptr /\ t.k \in {"bool", "i8", "i16", "i32", "i64", "double", "enum", "string"}) \/ (t.ptr /\ t.k = "struct")
IsValueT(t) == ~t.ptr \/ t.k = "struct"

\* after the first token tv of a non-keyword identifier: optional ".Name" qualification, then the
\* name must equal the Go type's name (an unnamed struct type matches anything)
MatchName(gt, s, i, tv) ==
  LET nx == ReadTok(s, i) IN
  IF Len(gt.name) = 0 /\ gt.g = "struct" THEN [ok |-> TRUE, i |-> i]
  ELSE IF nx.tok = <<>> \/ nx.tok = <<58>> \/ nx.tok = <<62>> THEN [ok |-> gt.name = tv, i |-> i]
  ELSE IF nx.tok # <<46>> THEN [ok |-> FALSE, i |-> i]
  ELSE LET id == ReadTok(s, nx.i) IN
       IF id.tok = <<>> \/ ~IsIdent0(id.tok[1]) THEN [ok |-> FALSE, i |-> i]
       ELSE [ok |-> gt.name = id.tok, i |-> id.i]

RECURSIVE PType(_, _, _, _)
\* gt: Go type, s: descriptor (<<>> if omitted), i: position, ptrs: are pointers allowed here
PType(gt, s, i, ptrs) ==
  LET has == Len(s) > 0 IN
  IF gt.g = "ptr" THEN
       IF ~ptrs THEN TBad("nested pointer")
       ELSE LET r == PType(gt.e, s, i, FALSE) IN
            IF ~r.ok THEN r
            ELSE IF r.t.k \in {"map", "set", "list", "binary"} THEN TBad("pointer to container")
            ELSE TOk([r.t EXCEPT !.ptr = TRUE], r.i)
  ELSE IF gt.g = "slice" /\ gt.e.g = "uint8" /\ gt.e.name = <<117, 105, 110, 116, 56>> THEN
       \* []byte: binary
       IF ~has THEN TOk([k |-> "binary", ptr |-> FALSE], i)
       ELSE LET tk == ReadTok(s, i) IN
            IF tk.tok \in Keywords("binary") THEN TOk([k |-> "binary", ptr |-> FALSE], tk.i)
            ELSE TBad("type mismatch")
  ELSE IF gt.g = "slice" THEN
       IF ~has THEN TBad("ambiguous set/list")
       ELSE LET tk == ReadTok(s, i) IN
            IF tk.tok \notin {W_set, W_list} THEN TBad("set or list expected")
            ELSE LET lt == ReadTok(s, tk.i) IN
                 IF lt.tok # <<60>> THEN TBad("< expected")
                 ELSE LET e == PType(gt.e, s, lt.i, TRUE) IN
                      IF ~e.ok THEN e
                      ELSE LET cl == ReadTok(s, e.i) IN
                           IF cl.tok # <<62>> THEN TBad("> expected")
                           ELSE IF ~IsValueT(e.t) THEN TBad("non-struct pointer element")
                           ELSE TOk([k |-> IF tk.tok = W_set THEN "set" ELSE "list", ptr |-> FALSE, e |-> e.t], cl.i)
  ELSE IF gt.g = "map" THEN
       LET hd == IF has THEN ReadTok(s, i) ELSE [tok |-> W_map, i |-> i] IN
       IF has /\ hd.tok = <<>> THEN TBad("unexpected EOF")
       ELSE IF hd.tok \notin Keywords("map") THEN TBad("type mismatch")
       ELSE LET lt == IF has THEN ReadTok(s, hd.i) ELSE [tok |-> <<60>>, i |-> i] IN
            IF lt.tok # <<60>> THEN TBad("< expected")
            ELSE LET kk == PType(gt.k, s, lt.i, TRUE) IN
                 IF ~kk.ok THEN kk
                 ELSE IF ~IsKeyT(kk.t) THEN TBad("invalid map key")
                 ELSE LET co == IF has THEN ReadTok(s, kk.i) ELSE [tok |-> <<58>>, i |-> i] IN
                      IF co.tok # <<58>> THEN TBad(": expected")
                      ELSE LET vv == PType(gt.v, s, co.i, TRUE) IN
                           IF ~vv.ok THEN vv
                           ELSE LET cl == IF has THEN ReadTok(s, vv.i) ELSE [tok |-> <<62>>, i |-> i] IN
                                IF cl.tok # <<62>> THEN TBad("> expected")
                                ELSE IF ~IsValueT(vv.t) THEN TBad("non-struct pointer value")
                                ELSE TOk([k |-> "map", ptr |-> FALSE, kt |-> kk.t, vt |-> vv.t], cl.i)
  ELSE LET k == IF gt.g = "struct" THEN "struct" ELSE BasicKind(gt.g) IN
       IF k = "" THEN TBad("unsupported kind")
       ELSE LET base == IF k = "struct" THEN [k |-> "struct", ptr |-> FALSE, s |-> gt.sname]
                        ELSE [k |-> k, ptr |-> FALSE] IN
            IF ~has THEN TOk(base, i)
            ELSE LET tk == ReadTok(s, i) IN
                 IF tk.tok = <<>> THEN TBad("unexpected EOF")
                 ELSE IF tk.tok \in Keywords(k) THEN TOk(base, tk.i)
                 ELSE IF ~IsIdent0(tk.tok[1]) THEN TBad("type mismatch")
                 ELSE LET m == MatchName(gt, s, tk.i, tk.tok) IN
                      IF ~m.ok THEN TBad("name mismatch")
                      ELSE IF k = "i64" /\ ~(gt.g = "int64" /\ gt.name = <<105, 110, 116, 54, 52>>)
                           THEN TOk([k |-> "enum", ptr |-> FALSE], m.i)     \* a named 64-bit integer with its own name
                           ELSE TOk(base, m.i)

\* the whole descriptor must be consumed
ParseDesc(gt, s) ==
  LET r == PType(gt, s, 1, TRUE) IN
  IF ~r.ok THEN r
  ELSE IF Len(s) > 0 /\ ReadTok(s, r.i).tok # <<>> THEN TBad("trailing tokens")
  ELSE r

\* ---- one field ------------------------------------------------------------------------
\* [skip |-> TRUE] (not part of the schema) | [skip |-> FALSE, ok |-> FALSE, why] | [skip |-> FALSE, ok |-> TRUE, f |-> ...]
FBad(why) == [skip |-> FALSE, ok |-> FALSE, why |-> why]
RECURSIVE OptsOK(_, _, _)
OptsOK(opts, i, seen) ==   \* "" (fine, no nocopy) / "nocopy" / "bad"
  IF i > Len(opts) THEN (IF seen THEN "nocopy" ELSE "")
  ELSE IF opts[i] # W_nocopy \/ seen THEN "bad"
  ELSE OptsOK(opts, i + 1, TRUE)

DeriveField(f) ==
  IF f.anon \/ ~f.exported THEN [skip |-> TRUE]
  ELSE LET tp == TagParts(f) IN
  IF ~tp.found THEN [skip |-> TRUE]
  ELSE LET ft == tp.parts IN
  IF Len(ft) = 0 THEN FBad("invalid tag")
  ELSE LET id == ParseId(ft[1]) IN
  IF id < 0 THEN FBad("invalid field number")
  ELSE LET reqw == IF Len(ft) >= 2 THEN ft[2] ELSE W_default
           req == IF reqw = W_default THEN "default" ELSE IF reqw = W_required THEN "required"
                  ELSE IF reqw = W_optional THEN "optional" ELSE "" IN
  IF req = "" THEN FBad("invalid requiredness")
  ELSE LET desc == IF Len(ft) >= 3 THEN ft[3] ELSE <<>>
           pt == ParseDesc(f.gt, desc) IN
  IF ~pt.ok THEN FBad(pt.why)
  ELSE IF req # "optional" /\ pt.t.ptr /\ pt.t.k # "struct" THEN FBad("only optional fields or structs can be pointers")
  ELSE LET o == OptsOK(SubSeq(ft, 4, Len(ft)), 1, FALSE) IN
  IF o = "bad" THEN FBad("invalid option")
  ELSE IF o = "nocopy" /\ pt.t.k \notin {"string", "binary"} THEN FBad("nocopy on non-string")
  ELSE [skip |-> FALSE, ok |-> TRUE,
        f |-> [id |-> id, req |-> req, t |-> pt.t, nocopy |-> o = "nocopy", name |-> f.name]]

\* ---- a struct ---------------------------------------------------------------------------
Derive(shape) ==
  LET ds == [i \in 1..Len(shape.fields) |-> DeriveField(shape.fields[i])]
      live == SelectSeq(ds, LAMBDA d : ~d.skip)
      bad == SelectSeq(live, LAMBDA d : ~d.ok) IN
  IF Len(bad) > 0 THEN [ok |-> FALSE, why |-> bad[1].why]
  ELSE LET fs == [i \in 1..Len(live) |-> live[i].f] IN
       IF \E i, j \in 1..Len(fs) : i < j /\ fs[i].id = fs[j].id THEN [ok |-> FALSE, why |-> "duplicated field id"]
       ELSE [ok |-> TRUE, fields |-> SortSeq(fs, LAMBDA a, b : a.id < b.id)]

Accepts(shape) == Derive(shape).ok
=============================================================================
