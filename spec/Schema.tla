------------------------------- MODULE Schema -------------------------------
(***************************************************************************)
(* Layer A - the type language.                                            *)
(*                                                                         *)
(* Struct universes are data: Defs is read from the JSON file named by     *)
(* the environment variable VERIF_DEFS, so the same modules judge the      *)
(* hand-written, the TLC-enumerated and the randomly generated universes.  *)
(*                                                                         *)
(* A type is a record                                                      *)
(*   [k |-> kind, ptr |-> BOOLEAN] plus                                    *)
(*     e  (element type)            for k in {"list","set"}                *)
(*     kt, vt (key / value type)    for k = "map"                          *)
(*     s  (struct name)             for k = "struct"                       *)
(* ptr marks a Go pointer: *S anywhere, *scalar / *string only on optional *)
(* fields.  A struct definition is                                         *)
(*   [fields |-> << [id, key, req, t, nocopy, name, def] >> (declaration   *)
(*    order), init |-> BOOLEAN, unk |-> BOOLEAN]                           *)
(* where key is the decimal id as a string (the key of the field in value  *)
(* records), name the Go field name as bytes, def the value the struct's   *)
(* default initialiser leaves in the field (present iff init).             *)
(***************************************************************************)
EXTENDS Thrift, Json, IOUtils, SequencesExt

Defs == JsonDeserialize(IOEnv.VERIF_DEFS)

FixedKinds  == {"bool", "i8", "i16", "i32", "i64", "double", "enum"}
ScalarKinds == FixedKinds \cup {"string"}
ListKinds   == {"list", "set"}

\* wire type of a kind
WT(t) ==
  LET k == t.k IN
  CASE k = "bool" -> TBOOL [] k = "i8" -> TBYTE [] k = "i16" -> TI16 [] k = "i32" -> TI32
    [] k = "enum" -> TI32 [] k = "i64" -> TI64 [] k = "double" -> TDOUBLE
    [] k = "string" -> TSTRING [] k = "binary" -> TSTRING [] k = "struct" -> TSTRUCT
    [] k = "map" -> TMAP [] k = "set" -> TSET [] k = "list" -> TLIST

\* width of the Go representation of a fixed kind (enum: int64 in memory, i32 on the wire)
GoW(k) == CASE k = "bool" -> 1 [] k = "i8" -> 1 [] k = "i16" -> 2 [] k = "i32" -> 4
            [] k = "i64" -> 8 [] k = "double" -> 8 [] k = "enum" -> 8
WireW(k) == IF k = "enum" THEN 4 ELSE GoW(k)

\* fields of a struct sorted by id: the order of the encoder and of the schema
SDefs == MatF([s \in DOMAIN Defs |->
            [Defs[s] EXCEPT !.fields = SortSeq(Defs[s].fields, LAMBDA a, b : a.id < b.id)]])

\* key -> field record, per struct (explicit records: looked up on every field access)
ByKey == MatF([s \in DOMAIN Defs |->
            MatF([key \in {Defs[s].fields[j].key : j \in 1..Len(Defs[s].fields)} |->
                    Defs[s].fields[CHOOSE j \in 1..Len(Defs[s].fields) : Defs[s].fields[j].key = key]])])
FieldByKey(s, key) == ByKey[s][key]

FieldsOf(s) == SDefs[s].fields
HasInit(s)  == SDefs[s].init
HasUnk(s)   == SDefs[s].unk

\* index (in FieldsOf) of the field with this id, 0 if none
FieldIdx(s, id) ==
  LET ff == FieldsOf(s)
      hit == {j \in 1..Len(ff) : ff[j].id = id} IN
  IF hit = {} THEN 0 ELSE CHOOSE j \in hit : TRUE

RequiredOf(s) == {j \in 1..Len(FieldsOf(s)) : FieldsOf(s)[j].req = "required"}

\* ---- zero values and declared defaults -------------------------------------
Zeros(n) == [i \in 1..n |-> 0]

RECURSIVE ZeroOf(_)
ZeroOf(t) ==
  IF t.ptr THEN [p |-> 0]
  ELSE CASE t.k \in FixedKinds -> Zeros(GoW(t.k))
         [] t.k = "string" -> <<>>
         [] t.k = "binary" -> [nil |-> TRUE, b |-> <<>>]
         [] t.k \in ListKinds -> [nil |-> TRUE, items |-> <<>>]
         [] t.k = "map" -> [nil |-> TRUE, ents |-> <<>>]
         [] t.k = "struct" ->
              [f |-> MatF([key \in DOMAIN ByKey[t.s] |-> ZeroOf(ByKey[t.s][key].t)]),
               unk |-> <<>>]

\* the Go zero value of struct s
ZeroStruct(s) == ZeroOf([k |-> "struct", s |-> s, ptr |-> FALSE])

\* the value of struct s after its default initialiser ran on a zero value
DefaultStruct(s) ==
  IF ~HasInit(s) THEN ZeroStruct(s)
  ELSE [f |-> MatF([key \in DOMAIN ByKey[s] |-> ByKey[s][key].def]),
        unk |-> <<>>]

\* the default initialiser run on an existing value (what generated code does): it assigns the fields
\* that declare a non-zero default and leaves everything else alone.  On a zero value: DefaultStruct.
InitOn(s, prior) ==
  IF ~HasInit(s) THEN prior
  ELSE LET d == DefaultStruct(s)
           z == ZeroStruct(s) IN
       [prior EXCEPT !.f = MatF([key \in DOMAIN ByKey[s] |-> IF d.f[key] = z.f[key] THEN prior.f[key] ELSE d.f[key]])]
=============================================================================
