------------------------------- MODULE Thrift -------------------------------
(***************************************************************************)
(* Layer A - wire primitives of the Thrift Binary Protocol.                *)
(*                                                                         *)
(* Bytes are naturals 0..255, byte strings are TLA+ sequences of bytes.    *)
(* TLC integers are 32 bit, therefore no operator in this module ever      *)
(* builds a number >= 2^31: lengths and counts are read with S32, which    *)
(* folds every negative value into -1.                                     *)
(***************************************************************************)
EXTENDS Integers, Sequences, FiniteSets, TLC

\* ---- type codes ---------------------------------------------------------
TSTOP   == 0
TBOOL   == 2
TBYTE   == 3
TDOUBLE == 4
TI16    == 6
TI32    == 8
TI64    == 10
TSTRING == 11
TSTRUCT == 12
TMAP    == 13
TSET    == 14
TLIST   == 15

LegalTypes == {TBOOL, TBYTE, TDOUBLE, TI16, TI32, TI64, TSTRING, TSTRUCT, TMAP, TSET, TLIST}

\* width of a fixed-size wire type, 0 for the others
FixedW(wt) ==
  CASE wt = TBOOL -> 1 [] wt = TBYTE -> 1 [] wt = TI16 -> 2 [] wt = TI32 -> 4
    [] wt = TI64 -> 8 [] wt = TDOUBLE -> 8 [] OTHER -> 0

\* minimum number of bytes a value of the wire type occupies
MinWire(wt) ==
  CASE wt = TSTRING -> 4 [] wt = TSTRUCT -> 1 [] wt = TMAP -> 6
    [] wt = TSET -> 5 [] wt = TLIST -> 5 [] OTHER -> FixedW(wt)

\* ---- big endian ---------------------------------------------------------
BE2(n) == << (n \div 256) % 256, n % 256 >>
BE4(n) == << (n \div 16777216) % 256, (n \div 65536) % 256, (n \div 256) % 256, n % 256 >>

U16(b, i) == b[i] * 256 + b[i + 1]
\* signed 32-bit read; every negative number is reported as -1
S32(b, i) == IF b[i] >= 128 THEN -1
             ELSE b[i] * 16777216 + b[i + 1] * 65536 + b[i + 2] * 256 + b[i + 3]

Sub(b, i, n) == SubSeq(b, i, i + n - 1)

\* number of bytes available from position i (1-based) on
Remain(b, i) == Len(b) - i + 1

MaxI(a, b) == IF a >= b THEN a ELSE b
MinI(a, b) == IF a <= b THEN a ELSE b

\* ---- generic (schema-less) skipping -------------------------------------
(***************************************************************************)
(* SkipD(wt, b, i, d) = <<n, depth>>: the number n of bytes the value of   *)
(* wire type wt starting at b[i] occupies and its nesting depth (scalars   *)
(* and strings 0, a struct 1 + deepest field, a container 1 + deepest      *)
(* element), or n negative:                                                *)
(*   -1  malformed (truncated, negative size, illegal type code)           *)
(*   -2  nesting deeper than d levels                                      *)
(* d counts the value itself: a scalar needs d >= 1.  This is the          *)
(* well-formedness grammar of one value.  Containers whose count is 0 may  *)
(* carry any element type code (no element is ever read).                  *)
(***************************************************************************)
RECURSIVE SkipD(_, _, _, _), SkipElems(_, _, _, _, _, _, _, _), SkipPairs(_, _, _, _, _, _, _, _, _),
          SkipFields(_, _, _, _, _, _)

(***************************************************************************)
(* The third component of the result is TRUE when the value is "dubious":  *)
(* it contains an EMPTY container whose element / key / value type code is *)
(* not a legal type.  No element is read, so a decoder may or may not look *)
(* at the code: both acceptance and an error are allowed for such input.   *)
(***************************************************************************)
SkipStr(b, i) ==
  IF Remain(b, i) < 4 THEN -1
  ELSE LET l == S32(b, i) IN
       IF l < 0 \/ l > Remain(b, i) - 4 THEN -1 ELSE 4 + l

\* n elements of wire type wt from position i; acc = bytes consumed so far, md = max depth
SkipElems(wt, b, i, n, d, acc, md, q) ==
  IF n = 0 THEN <<acc, md, q>>
  ELSE LET r == SkipD(wt, b, i, d) IN
       IF r[1] < 0 THEN r ELSE SkipElems(wt, b, i + r[1], n - 1, d, acc + r[1], MaxI(md, r[2]), q \/ r[3])

SkipPairs(kt, vt, b, i, n, d, acc, md, q) ==
  IF n = 0 THEN <<acc, md, q>>
  ELSE LET rk == SkipD(kt, b, i, d) IN
       IF rk[1] < 0 THEN rk
       ELSE LET rv == SkipD(vt, b, i + rk[1], d) IN
            IF rv[1] < 0 THEN rv
            ELSE SkipPairs(kt, vt, b, i + rk[1] + rv[1], n - 1, d, acc + rk[1] + rv[1],
                           MaxI(md, MaxI(rk[2], rv[2])), q \/ rk[3] \/ rv[3])

\* fields of a struct from position i until STOP
SkipFields(b, i, d, acc, md, q) ==
  IF Remain(b, i) < 1 THEN <<-1, 0, FALSE>>
  ELSE IF b[i] = TSTOP THEN <<acc + 1, md, q>>
  ELSE IF Remain(b, i) < 3 THEN <<-1, 0, FALSE>>
  ELSE LET r == SkipD(b[i], b, i + 3, d) IN
       IF r[1] < 0 THEN r ELSE SkipFields(b, i + 3 + r[1], d, acc + 3 + r[1], MaxI(md, r[2]), q \/ r[3])

Plus1(r) == IF r[1] < 0 THEN r ELSE <<r[1], r[2] + 1, r[3]>>
SBad == <<-1, 0, FALSE>>

SkipD(wt, b, i, d) ==
  IF wt \notin LegalTypes THEN SBad
  ELSE IF d <= 0 THEN <<-2, 0, FALSE>>
  ELSE IF FixedW(wt) > 0 THEN (IF Remain(b, i) < FixedW(wt) THEN SBad ELSE <<FixedW(wt), 0, FALSE>>)
  ELSE IF wt = TSTRING THEN <<SkipStr(b, i), 0, FALSE>>
  ELSE IF wt = TSTRUCT THEN Plus1(SkipFields(b, i, d - 1, 0, 0, FALSE))
  ELSE IF wt = TMAP THEN
       IF Remain(b, i) < 6 THEN SBad
       ELSE LET n == S32(b, i + 2) IN
            IF n < 0 THEN SBad
            ELSE IF n = 0 THEN <<6, 1, b[i] \notin LegalTypes \/ b[i + 1] \notin LegalTypes>>
            ELSE IF FixedW(b[i]) > 0 /\ FixedW(b[i + 1]) > 0 THEN
                 (IF n > (Remain(b, i) - 6) \div (FixedW(b[i]) + FixedW(b[i + 1])) THEN SBad
                  ELSE <<6 + n * (FixedW(b[i]) + FixedW(b[i + 1])), 1, FALSE>>)
            ELSE IF n > Remain(b, i) - 6 THEN SBad   \* every pair needs >= 2 bytes
            ELSE Plus1(SkipPairs(b[i], b[i + 1], b, i + 6, n, d - 1, 6, 0, FALSE))
  ELSE \* list or set
       IF Remain(b, i) < 5 THEN SBad
       ELSE LET n == S32(b, i + 1) IN
            IF n < 0 THEN SBad
            ELSE IF n = 0 THEN <<5, 1, b[i] \notin LegalTypes>>
            ELSE IF FixedW(b[i]) > 0 THEN
                 (IF n > (Remain(b, i) - 5) \div FixedW(b[i]) THEN SBad ELSE <<5 + n * FixedW(b[i]), 1, FALSE>>)
            ELSE IF n > Remain(b, i) - 5 THEN SBad
            ELSE Plus1(SkipElems(b[i], b, i + 5, n, d - 1, 5, 0, FALSE))

Skip(wt, b, i, d) == SkipD(wt, b, i, d)[1]

\* ---- byte-tuple helpers ---------------------------------------------------
\* does needle occur as a contiguous subsequence of hay
HasSub(hay, needle) ==
  \/ Len(needle) = 0
  \/ \E i \in 1..(Len(hay) - Len(needle) + 1) :
        \A j \in 1..Len(needle) : hay[i + j - 1] = needle[j]

AllZero(s) == \A i \in 1..Len(s) : s[i] = 0

\* IEEE-754 double given as 8 big-endian bytes
IsNaN(d) == /\ d[1] % 128 = 127 /\ d[2] \div 16 = 15
            /\ ~(d[2] % 16 = 0 /\ d[3] = 0 /\ d[4] = 0 /\ d[5] = 0 /\ d[6] = 0 /\ d[7] = 0 /\ d[8] = 0)
IsZeroD(d) == d[1] % 128 = 0 /\ \A i \in 2..8 : d[i] = 0
\* Go's == on float64
FloatEq(a, b) == IF IsNaN(a) \/ IsNaN(b) THEN FALSE
                 ELSE IF IsZeroD(a) /\ IsZeroD(b) THEN TRUE ELSE a = b

(***************************************************************************)
(* TLC evaluates [x \in S |-> e] lazily and re-evaluates e at every          *)
(* application.  Mat / MatF force the function into an explicit tuple /      *)
(* record once; they are identities as far as TLA+ is concerned.             *)
(***************************************************************************)
Mat(f)  == f \o <<>>
MatF(f) == f @@ <<>>

\* concatenation of a sequence of sequences (linear accumulate)
RECURSIVE FlatAcc(_, _, _)
FlatAcc(ss, i, acc) == IF i > Len(ss) THEN acc ELSE FlatAcc(ss, i + 1, acc \o ss[i])
Flat(ss) == FlatAcc(ss, 1, <<>>)

RECURSIVE SumAcc(_, _, _)
SumAcc(ns, i, acc) == IF i > Len(ns) THEN acc ELSE SumAcc(ns, i + 1, acc + ns[i])
Sum(ns) == SumAcc(ns, 1, 0)
=============================================================================
