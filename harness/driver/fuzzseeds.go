package main

import (
	"encoding/json"
	"os"
)

// readSeedFile: a JSON list of byte lists (written by the orchestrator)
func readSeedFile(path string) [][]byte {
	raw, err := os.ReadFile(path)
	if err != nil {
		return nil
	}
	var in [][]int
	if json.Unmarshal(raw, &in) != nil {
		return nil
	}
	out := make([][]byte, len(in))
	for i, s := range in {
		b := make([]byte, len(s))
		for j, x := range s {
			b[j] = byte(x)
		}
		out[i] = b
	}
	return out
}
