package main

import (
	"github.com/apache/thrift/lib/go/thrift"
)

// apacheSkip lets an independent Thrift implementation (apache/thrift TBinaryProtocol, strict
// read) walk over one struct in b; it reports whether that succeeded and how many bytes remain.
func apacheSkip(b []byte) (ok bool, left int) {
	defer func() {
		if recover() != nil {
			ok, left = false, -1
		}
	}()
	trans := thrift.NewTMemoryBufferLen(len(b))
	trans.Write(b)
	proto := thrift.NewTBinaryProtocol(trans, true, true)
	if err := thrift.SkipDefaultDepth(proto, thrift.STRUCT); err != nil {
		return false, trans.Len()
	}
	return true, trans.Len()
}
