package main

import (
	"fmt"
	"hash/fnv"
	"reflect"
	"strconv"
	"unsafe"
)

// rawDigest hashes the bytes of the struct itself (not what it points to): enough to see
// whether a rejected call stored anything into the destination.
func rawDigest(p reflect.Value) string {
	sz := p.Type().Elem().Size()
	b := unsafe.Slice((*byte)(p.UnsafePointer()), sz)
	h := fnv.New64a()
	h.Write(b)
	return strconv.FormatUint(h.Sum64(), 16)
}

// stepReject calls one entry point with a zero value of a type (or a non-struct argument)
// that the definition language does not support and records what happened, raw.
func (c *stepCtx) stepReject(st map[string]interface{}) []string {
	ty := str(st, "ty", "")
	entry := str(st, "entry", "encode")
	argk := str(st, "arg", "ptr") // ptr | val | nil | int | intptr | ptrptr | nilptr
	var arg interface{}
	var holder reflect.Value
	if d, ok := defs[ty]; ok {
		holder = reflect.New(d.rt)
	} else {
		holder = reflect.New(reflect.TypeOf(struct{}{}))
	}
	switch argk {
	case "ptr":
		arg = holder.Interface()
	case "val":
		arg = holder.Elem().Interface()
	case "nil":
		arg = nil
	case "int":
		arg = 42
	case "intptr":
		x := 42
		arg = &x
	case "ptrptr":
		pp := reflect.New(holder.Type())
		pp.Elem().Set(holder)
		arg = pp.Interface()
	case "nilptr":
		arg = reflect.Zero(holder.Type()).Interface()
	case "nilintptr":
		arg = (*int)(nil)
	case "nilsliceptr":
		arg = (*[]int32)(nil)
	case "nilptrptr":
		arg = reflect.Zero(reflect.PtrTo(holder.Type())).Interface()
	case "nilmapptr":
		arg = (*map[string]int32)(nil)
	case "str":
		arg = "struct"
	case "slice":
		arg = []int32{1}
	case "map":
		arg = map[string]int32{"a": 1}
	}
	var out []string
	for r := 0; r < num(st, "repeat", 1); r++ {
		dpre := rawDigest(holder)
		head := fmt.Sprintf(`"ev":"Reject","ty":%q,"entry":%q,"arg":%q,"class":%q,"rep":%d,"obs":{`, ty, entry, argk, str(st, "class", ""), r)
		var line string
		switch entry {
		case "size":
			n, pan := callSize(arg)
			if pan != nil {
				line = head + panicObs(pan)
			} else {
				line = head + fmt.Sprintf(`"out":"ok","n":%d`, n)
			}
			line += `,"dlo":-1,"dhi":-1`
		case "encode":
			back := make([]byte, 64)
			for i := range back {
				back[i] = guardAt(i)
			}
			n, err, pan := callEncode(back, arg)
			lo, hi := -1, -1
			for i := range back {
				if back[i] != guardAt(i) {
					if lo < 0 {
						lo = i
					}
					hi = i
				}
			}
			if pan != nil {
				line = head + panicObs(pan)
			} else if err != nil {
				line = head + fmt.Sprintf(`"out":"err","n":%d,`, n) + errObs(err)
			} else {
				line = head + fmt.Sprintf(`"out":"ok","n":%d`, n)
			}
			line += fmt.Sprintf(`,"dlo":%d,"dhi":%d`, lo, hi)
		case "decode":
			in := []byte{8, 0, 1, 0, 0, 0, 5, 11, 0, 2, 0, 0, 0, 1, 65, 0}
			n, err, pan := callDecode(in, arg)
			if pan != nil {
				line = head + panicObs(pan)
			} else if err != nil {
				line = head + fmt.Sprintf(`"out":"err","n":%d,`, n) + errObs(err)
			} else {
				line = head + fmt.Sprintf(`"out":"ok","n":%d`, n)
			}
			line += `,"dlo":-1,"dhi":-1`
		}
		line += fmt.Sprintf(`,"dpre":%q,"dpost":%q}`, dpre, rawDigest(holder))
		out = append(out, line)
	}
	return out
}
