package main

import (
	"bytes"
	"fmt"
	"os"
	"reflect"
	"sync"
	"sync/atomic"
	"time"

	"github.com/cloudwego/frugal/verifhook"
)

// A forced two-party schedule around one registry lock section (C08).  The writer makes a (first) use
// of a type; the registry hooks of ITS goroutine act as gates: at every hook the writer is held, and
// while it is held fresh reader goroutines make the probe calls.  A reader either completes during
// the pause (the lock-free lookup found what it needs) or blocks on the registry mutex until the
// writer is through.  Every call is recorded as its own line and judged like a sequential call; the
// Gated line records, per pause, which probes completed during it.
var (
	gateOn atomic.Bool
	gateG  atomic.Int64
	gateCh = make(chan hookEv)
	gateGo = make(chan struct{})
)

// called by the sink for registry events
func gate(e hookEv) {
	if gateOn.Load() && int64(goid()) == gateG.Load() {
		gateCh <- e
		<-gateGo
	}
}

func (c *stepCtx) stepGated(k int, st map[string]interface{}) []string {
	wstep, _ := st["writer"].(map[string]interface{})
	probes, _ := st["probes"].([]interface{})
	pauseMs := num(st, "pause_ms", 40)
	var mu sync.Mutex
	emitT := func(thr int, line string) {
		mu.Lock()
		c.emitLine(fmt.Sprintf(`"thr":%d,%s`, thr, line))
		mu.Unlock()
	}
	newLocal := func(thr int) *stepCtx {
		l := &stepCtx{sc: c.sc, outs: map[int][]byte{}, objs: map[int]reflect.Value{}, par: true}
		l.emitLine = func(line string) { emitT(thr, line) }
		return l
	}
	done := make(chan struct{})
	go func() {
		defer close(done)
		gateG.Store(int64(goid()))
		gateOn.Store(true)
		defer gateOn.Store(false)
		l := newLocal(0)
		for _, line := range l.runStep(0, wstep) {
			l.emitLine(line)
		}
	}()
	var readers sync.WaitGroup
	var b bytes.Buffer
	npause := 0
	thr := 0
loop:
	for {
		select {
		case e := <-gateCh:
			stepStart.Store(time.Now().UnixNano()) // progress: the watchdog limit applies to one pause, not to the whole schedule
			kind := map[int]string{verifhook.EvSlotStore: "store", verifhook.EvGotLock: "lock", verifhook.EvUnlock: "unlock",
				verifhook.EvPfWrite: "pf", verifhook.EvLinkWrite: "link", verifhook.EvRollback: "rollback"}[e.ev]
			n := abiName{}
			if e.ev != verifhook.EvRollback {
				n = nameOfAbi(e.a)
			}
			if npause > 0 {
				b.WriteByte(',')
			}
			fmt.Fprintf(&b, `{"k":%q,"s":%q,"p":%v,"early":[`, kind, n.s, n.p)
			for pi, p := range probes {
				pm, _ := p.(map[string]interface{})
				thr++
				fin := make(chan struct{})
				readers.Add(1)
				go func(thr int, pm map[string]interface{}) {
					defer readers.Done()
					defer close(fin)
					l := newLocal(thr)
					for _, line := range l.runStep(0, pm) {
						l.emitLine(line)
					}
				}(thr, pm)
				early := false
				select {
				case <-fin:
					early = true
				case <-time.After(time.Duration(pauseMs) * time.Millisecond):
				}
				if pi > 0 {
					b.WriteByte(',')
				}
				fmt.Fprintf(&b, "%v", early)
			}
			b.WriteString("]}")
			npause++
			gateGo <- struct{}{}
		case <-done:
			break loop
		}
	}
	out := "ok"
	fin := make(chan struct{})
	go func() { readers.Wait(); close(fin) }()
	select {
	case <-fin:
	case <-time.After(20 * time.Second):
		out = "hang"
	}
	var pb bytes.Buffer
	for pi, p := range probes {
		pm, _ := p.(map[string]interface{})
		if pi > 0 {
			pb.WriteByte(',')
		}
		fmt.Fprintf(&pb, `{"s":%q,"p":%v}`, str(pm, "ty", ""), !boolean(pm, "byval") && str(pm, "arg", "ptr") != "val")
	}
	return []string{fmt.Sprintf(`"ev":"Gated","ty":%q,"pe":%d,"obs":{"out":%q,"probes":[%s],"pauses":[%s]}`, str(wstep, "ty", ""), os.Getpid(), out, pb.String(), b.String())}
}
