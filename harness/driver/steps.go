package main

import (
	"bytes"
	"encoding/json"
	"errors"
	"fmt"
	"os"
	"reflect"
	"runtime"
	"strconv"
	"strings"
	"time"

	"github.com/cloudwego/frugal"
	"github.com/cloudwego/gopkg/protocol/thrift"
)

type stepCtx struct {
	sc    *Scenario
	outs  map[int][]byte        // bytes produced by encode steps
	objs  map[int]reflect.Value // destination objects (*S) of decode steps
	ins   map[int][]byte        // input buffers of decode steps that keep their object
	objTy map[int]string
	snaps map[int]string // value digests taken right after decoding

	emitLine func(string) // writes one trace line of the running step at once
	par      bool         // inside a concurrent section: process-wide counters are meaningless
}

func num(m map[string]interface{}, k string, def int) int {
	if x, ok := m[k]; ok {
		if f, ok := x.(float64); ok {
			return int(f)
		}
	}
	return def
}

func str(m map[string]interface{}, k, def string) string {
	if x, ok := m[k]; ok {
		if s, ok := x.(string); ok {
			return s
		}
	}
	return def
}

func boolean(m map[string]interface{}, k string) bool {
	if x, ok := m[k]; ok {
		if b, ok := x.(bool); ok {
			return b
		}
	}
	return false
}

func jbytes(b []byte) string {
	var w bytes.Buffer
	putBytes(&w, b)
	return w.String()
}

func runScenario(idx int, sc *Scenario, first int) {
	vals, _ := json.Marshal(sc.Vals)
	if sc.Vals == nil {
		vals = []byte("[]")
	}
	if first == 0 {
		emit(fmt.Sprintf(`{"ev":"Scenario","scen":%d,"sid":%s,"prop":%s,"vals":%s}`,
			idx, strconv.Quote(sc.Sid), strconv.Quote(sc.Prop), vals))
	}
	ctx := &stepCtx{sc: sc, outs: map[int][]byte{}, objs: map[int]reflect.Value{}, ins: map[int][]byte{}, objTy: map[int]string{}, snaps: map[int]string{}}
	for k, st := range sc.Steps {
		if k < first {
			continue
		}
		emit(fmt.Sprintf(`{"ev":"Intent","scen":%d,"step":%d}`, idx, k))
		stepStart.Store(time.Now().UnixNano())
		ctx.emitLine = func(line string) {
			emit(fmt.Sprintf(`{"scen":%d,"sid":%s,"step":%d,%s}`, idx, strconv.Quote(sc.Sid), k, line))
			stepStart.Store(time.Now().UnixNano()) // the watchdog limit is per emitted line
		}
		wantHooks := boolean(st, "hooks")
		if wantHooks {
			hooksStart()
		}
		lines := ctx.runStep(k, st)
		stepStart.Store(0)
		for _, line := range lines {
			ctx.emitLine(line)
		}
		if wantHooks {
			ctx.emitLine(hooksLine())
		}
		if rl := regLine(); rl != "" {
			ctx.emitLine(rl)
		}
		stepStart.Store(0)
		emit(fmt.Sprintf(`{"ev":"StepEnd","scen":%d,"step":%d}`, idx, k))
	}
}

func (c *stepCtx) runStep(k int, st map[string]interface{}) []string {
	if o, ok := st["obj"]; ok {
		if _, have := c.objs[int(o.(float64))]; !have {
			return []string{fmt.Sprintf(`"ev":"Skipped","why":"no object from step %d"`, int(o.(float64)))}
		}
	}
	switch str(st, "op", "") {
	case "size":
		return []string{c.stepSize(k, st)}
	case "encode":
		return []string{c.stepEncode(k, st)}
	case "encsweep":
		return c.stepEncSweep(k, st)
	case "decode":
		return []string{c.stepDecode(k, st)}
	case "deep":
		return c.stepDeep(st)
	case "reject":
		return c.stepReject(st)
	case "par":
		return c.stepPar(k, st)
	case "gated":
		return c.stepGated(k, st)
	case "cmpout":
		// the outputs of two earlier encode steps, side by side (the specification compares them)
		a, b := c.outs[num(st, "a", -1)], c.outs[num(st, "b", -1)]
		return []string{fmt.Sprintf(`"ev":"CmpOut","a":%d,"b":%d,"obs":{"out":"ok","oa":%s,"ob":%s}`, num(st, "a", -1), num(st, "b", -1), jbytes(a), jbytes(b))}
	case "scale":
		return []string{c.stepScale(st)}
	case "repeat":
		return []string{c.stepRepeat(st)}
	case "legacy":
		return []string{c.stepLegacy(k, st)}
	case "allocs":
		return []string{c.stepAllocs(st)}
	case "gc":
		churn()
		return []string{`"ev":"GC"`}
	case "walk":
		return []string{c.stepWalk(st)}
	case "overwrite":
		if in, ok := c.ins[num(st, "obj", -1)]; ok {
			for i := range in {
				in[i] = byte(num(st, "byte", 255))
			}
		}
		return []string{fmt.Sprintf(`"ev":"Overwrite","obj":%d`, num(st, "obj", -1))}
	case "drop":
		delete(c.objs, num(st, "obj", -1))
		delete(c.ins, num(st, "obj", -1))
		return []string{fmt.Sprintf(`"ev":"Drop","obj":%d`, num(st, "obj", -1))}
	case "recheck":
		return []string{c.stepRecheck(st)}
	case "clone":
		// a shallow copy of a kept object (the struct is copied, everything it points to is shared):
		// what a caller holds who copied the struct, or kept its field pointers, before reusing it
		o := num(st, "obj", -1)
		if ov, ok := c.objs[o]; ok {
			cp := reflect.New(ov.Type().Elem())
			cp.Elem().Set(ov.Elem())
			c.objs[k] = cp
			c.objTy[k] = c.objTy[o]
			c.ins[k] = c.ins[o]
			c.snaps[k] = valueDigestNoNocopy(c.objTy[o], cp)
		}
		return []string{fmt.Sprintf(`"ev":"Clone","obj":%d`, o)}
	}
	fmt.Fprintln(os.Stderr, "harness: unknown op", st["op"])
	return []string{`"ev":"Unknown"`}
}

// encsweep: one Encode call for every buffer length 0..n0 (n0 = length of the message as
// learnt from a call with a large buffer), alternating no spare capacity / spare capacity.
func (c *stepCtx) stepEncSweep(k int, st map[string]interface{}) []string {
	_, _, iface := c.arg(st)
	big := make([]byte, 1<<16)
	n0, err0, pan0 := callEncode(big, iface)
	if pan0 != nil || err0 != nil || n0 > num(st, "max", 64) {
		st2 := map[string]interface{}{}
		for kk, vv := range st {
			st2[kk] = vv
		}
		st2["buf"] = map[string]interface{}{"mode": "rel", "n": float64(-1), "extra": float64(8)}
		return []string{c.stepEncode(k, st2)}
	}
	var out []string
	for l := 0; l <= n0+1; l++ {
		st2 := map[string]interface{}{}
		for kk, vv := range st {
			st2[kk] = vv
		}
		extra := 0
		if l%2 == 1 {
			extra = num(st, "extra", 8)
		}
		st2["buf"] = map[string]interface{}{"mode": "abs", "n": float64(l), "extra": float64(extra)}
		out = append(out, c.stepEncode(-1, st2))
	}
	return out
}

// ---- panics and errors as raw facts ------------------------------------------------

func panicObs(p interface{}) string {
	_, rt := p.(runtime.Error)
	msg := fmt.Sprint(p)
	if len(msg) > 300 {
		msg = msg[:300]
	}
	return fmt.Sprintf(`"out":"panic","rt":%v,"msg":%s`, rt, jbytes([]byte(msg)))
}

func errObs(err error) string {
	cls, tid := "other", -1
	var pe *thrift.ProtocolException
	if errors.As(err, &pe) {
		cls, tid = "proto", int(pe.TypeId())
	}
	msg := err.Error()
	if len(msg) > 400 {
		msg = msg[:400]
	}
	return fmt.Sprintf(`"err":{"cls":%q,"tid":%d,"msg":%s}`, cls, tid, jbytes([]byte(msg)))
}

// argument: the value built from vals[v], passed by pointer or by value
func (c *stepCtx) arg(st map[string]interface{}) (ty string, holder reflect.Value, iface interface{}) {
	ty = str(st, "ty", "")
	if k, ok := st["obj"]; ok { // the object a previous decode step produced
		holder = c.objs[int(k.(float64))]
	} else {
		holder = newValue(ty, c.sc.Vals[num(st, "v", 0)])
	}
	if boolean(st, "byval") {
		iface = holder.Elem().Interface()
	} else {
		iface = holder.Interface()
	}
	return
}

// snapshot digest of what the callee was given: the holder (shares all reachable memory
// with a by-value copy) and, for by-value calls, the copy inside the interface too.
func argDigest(ty string, holder reflect.Value, iface interface{}, byval bool) string {
	d := digest(ty, holder)
	if byval {
		cp := reflect.New(holder.Type().Elem())
		cp.Elem().Set(reflect.ValueOf(iface))
		d += "/" + digest(ty, cp)
	}
	return d
}

// inlineVal: for calls on a previously decoded object the abstract value travels in the line
func (c *stepCtx) inlineVal(st map[string]interface{}, ty string, holder reflect.Value) string {
	if _, ok := st["obj"]; !ok {
		return ""
	}
	return `"val":` + projectStruct(ty, holder) + `,`
}

func callSize(v interface{}) (n int, pan interface{}) {
	defer func() { pan = recover() }()
	n = frugal.EncodedSize(v)
	return
}

func callEncode(buf []byte, v interface{}) (n int, err error, pan interface{}) {
	defer func() { pan = recover() }()
	n, err = frugal.EncodeObject(buf, nil, v)
	return
}

func callDecode(buf []byte, v interface{}) (n int, err error, pan interface{}) {
	defer func() { pan = recover() }()
	n, err = frugal.DecodeObject(buf, v)
	return
}

func (c *stepCtx) stepSize(k int, st map[string]interface{}) string {
	ty, holder, iface := c.arg(st)
	if boolean(st, "keep") && c.objs != nil && c.snaps != nil {
		// the caller keeps using the value it passed (by pointer): a later recheck shows whether anything touched it
		c.objs[k] = holder
		c.objTy[k] = ty
		c.snaps[k] = valueDigestNoNocopy(ty, holder)
	}
	byval := boolean(st, "byval")
	pre := argDigest(ty, holder, iface, byval)
	n, pan := callSize(iface)
	post := argDigest(ty, holder, iface, byval)
	head := fmt.Sprintf(`"ev":"Size","ty":%q,"v":%d,%s"byval":%v,"obs":{"pre":%q,"post":%q,`,
		ty, num(st, "v", 0), c.inlineVal(st, ty, holder), byval, pre, post)
	if pan != nil {
		return head + panicObs(pan) + "}"
	}
	return head + fmt.Sprintf(`"out":"ok","n":%d}`, n)
}

const guardByte = 0xA5

func guardAt(i int) byte { return guardByte ^ byte(i*7) }

func (c *stepCtx) stepEncode(k int, st map[string]interface{}) string {
	ty, holder, iface := c.arg(st)
	byval := boolean(st, "byval")
	bufspec, _ := st["buf"].(map[string]interface{})
	mode := str(bufspec, "mode", "rel")
	blen := num(bufspec, "n", 0)
	extra := num(bufspec, "extra", 0)
	probe := -1
	pre := argDigest(ty, holder, iface, byval) // before any call, the probing one included
	if mode == "rel" {
		// learn the length of the message from a call with a large buffer
		big := make([]byte, 1<<16)
		n0, err0, pan0 := callEncode(big, iface)
		if pan0 == nil && err0 != nil {
			big = make([]byte, 1<<24)
			n0, err0, pan0 = callEncode(big, iface)
		}
		if pan0 != nil || err0 != nil {
			n0 = 64
		} else {
			probe = n0
		}
		blen = n0 + blen
		if blen < 0 {
			blen = 0
		}
	}
	if mode == "size" {
		// the buffer is sized from EncodedSize: no probing EncodeObject call disturbs the history
		if n0, pan0 := callSize(iface); pan0 == nil {
			blen = n0 + blen
		} else {
			blen = 64
		}
		if blen < 0 {
			blen = 0
		}
	}
	back := make([]byte, blen+extra)
	for i := range back {
		back[i] = guardAt(i)
	}
	buf := back[:blen:len(back)]
	n, err, pan := callEncode(buf, iface)
	post := argDigest(ty, holder, iface, byval)
	lo, hi := -1, -1
	for i := range back {
		if back[i] != guardAt(i) {
			if lo < 0 {
				lo = i
			}
			hi = i
		}
	}
	evName := "Encode"
	if boolean(st, "raw") {
		// only a source of bytes for a later side-by-side comparison (cmpout): the value may hold what the value
		// language does not describe (bool bytes other than 0 / 1 as the decoder stores them), so it is not judged here
		evName = "EncodeRaw"
	}
	head := fmt.Sprintf(`"ev":%q,"ty":%q,"v":%d,%s"byval":%v,"buflen":%d,"bufcap":%d,"probe":%d,"obs":{"pre":%q,"post":%q,"dlo":%d,"dhi":%d,`,
		evName, ty, num(st, "v", 0), c.inlineVal(st, ty, holder), byval, blen, len(back), probe, pre, post, lo, hi)
	if pan != nil {
		return head + panicObs(pan) + "}"
	}
	if err != nil {
		return head + fmt.Sprintf(`"out":"err","n":%d,`, n) + errObs(err) + "}"
	}
	var outb []byte
	if n >= 0 && n <= len(buf) {
		outb = append([]byte{}, buf[:n]...)
		c.outs[k] = outb
	}
	apok, apleft := apacheSkip(outb)
	return head + fmt.Sprintf(`"out":"ok","n":%d,"ap_ok":%v,"ap_left":%d,"bytes":%s}`, n, apok, apleft, jbytes(outb))
}

func (c *stepCtx) stepDecode(k int, st map[string]interface{}) string {
	ty := str(st, "ty", "")
	d := defs[ty]
	var in []byte
	if x, ok := st["in"]; ok {
		in = toBytes(x)
	} else {
		src, ok := c.outs[num(st, "from", -1)]
		if !ok {
			return fmt.Sprintf(`"ev":"Skipped","ty":%q,"why":"no input from step %d"`, ty, num(st, "from", -1))
		}
		in = append([]byte{}, src...)
		if cut := num(st, "cut", 0); cut > 0 && cut < len(in) {
			in = in[:len(in)-cut] // the message arrives truncated
		}
	}
	if boolean(st, "guard") {
		in = guardedCopy(in) // ends at an inaccessible page
	} else if sl := num(st, "slack", 0); sl > 0 {
		// the input is a prefix of a larger (zero-filled) buffer: len(in) < cap(in).  Nothing beyond len may be read.
		arr := make([]byte, len(in)+sl)
		copy(arr, in)
		in = arr[:len(in)]
	} else {
		in = append(make([]byte, 0, len(in)), in...) // cap = len
	}
	// destination
	var dest reflect.Value
	switch str(st, "dest", "fresh") {
	case "fresh": // zero value, default-initialised when the type declares defaults
		dest = reflect.New(d.rt)
		if d.Init {
			initDefault(ty, dest.UnsafePointer())
		}
	case "zero":
		dest = reflect.New(d.rt)
	case "val":
		dest = newValue(ty, c.sc.Vals[num(st, "dv", 0)])
	case "into": // the object an earlier decode step produced, decoded into again (a recycled target)
		ov, ok := c.objs[num(st, "obj", -1)]
		if !ok {
			return fmt.Sprintf(`"ev":"Skipped","ty":%q,"why":"no object from step %d"`, ty, num(st, "obj", -1))
		}
		dest = ov
	}
	destJSON := projectStruct(ty, dest)
	inpre := digestBytes(in)
	var ms0, ms1 runtime.MemStats
	runtime.ReadMemStats(&ms0)
	h0 := hookAllocBytes.Load()
	t0 := time.Now()
	n, err, pan := callDecode(in, dest.Interface())
	us := time.Since(t0).Microseconds()
	halloc := hookAllocBytes.Load() - h0 // what the decoder's allocator took for this call (exact when single-threaded)
	runtime.ReadMemStats(&ms1)
	inpost := digestBytes(in)
	alloc := ms1.TotalAlloc - ms0.TotalAlloc
	if !c.par && pan == nil && (alloc > uint64(2048*len(in)+(512<<10)) || us > 500000) {
		// The allocation counter is process-wide and the clock is the wall clock, so a figure that looks out of
		// proportion may belong to something else (a collection, the recorder).  It is measured again - the same
		// input into a scratch destination - and the smallest figure counts: a cost that belongs to the input is
		// there every time.
		for r := 0; r < 2; r++ {
			scratch := reflect.New(d.rt)
			in2 := append(make([]byte, 0, len(in)), in...)
			var a0, a1 runtime.MemStats
			runtime.ReadMemStats(&a0)
			t1 := time.Now()
			callDecode(in2, scratch.Interface())
			u := time.Since(t1).Microseconds()
			runtime.ReadMemStats(&a1)
			if a1.TotalAlloc-a0.TotalAlloc < alloc {
				alloc = a1.TotalAlloc - a0.TotalAlloc
			}
			if u < us {
				us = u
			}
		}
	}
	head := fmt.Sprintf(`"ev":"Decode","ty":%q,"in":%s,"dest":%s,"orig":%d,"hops":%d,"obs":{"inpre":%q,"inpost":%q,"alloc":%d,"halloc":%d,"us":%d,`,
		ty, jbytes(in), destJSON, num(st, "orig", -1), num(st, "hops", 1), inpre, inpost,
		c.quiet(clamp(alloc)), c.quiet(clamp(halloc)), c.quiet(clamp(uint64(us))))
	if pan != nil {
		return head + panicObs(pan) + "}"
	}
	if err != nil {
		c.objs[k] = dest // the partially filled destination: a caller may well decode into it again
		if c.ins != nil {
			c.ins[k] = in
			c.objTy[k] = ty
			c.snaps[k] = valueDigestNoNocopy(ty, dest)
		}
		return head + fmt.Sprintf(`"out":"err","n":%d,`, n) + errObs(err) + "}"
	}
	c.objs[k] = dest
	if c.ins != nil {
		c.ins[k] = in
		c.objTy[k] = ty
		c.snaps[k] = valueDigestNoNocopy(ty, dest)
	}
	return head + fmt.Sprintf(`"out":"ok","n":%d,"val":%s}`, n, projectStruct(ty, dest))
}

func (c *stepCtx) quiet(x int) int {
	if c.par {
		return 0
	}
	return x
}

// churn allocates and drops garbage of many size classes around two collections, so that
// memory freed by mistake is reused (and, with GODEBUG=clobberfree=1, overwritten)
var churnSink [][]byte

func churn() {
	for r := 0; r < 2; r++ {
		for i := 0; i < 2000; i++ {
			churnSink = append(churnSink, make([]byte, 8+(i*37)%3000))
		}
		churnSink = nil
		runtime.GC()
	}
	fill := make([][]byte, 0, 3000)
	for i := 0; i < 3000; i++ {
		b := make([]byte, 8+(i*53)%2500)
		for j := range b {
			b[j] = 0xCD
		}
		fill = append(fill, b)
	}
	runtime.KeepAlive(fill)
}

// stepRecheck projects a kept object again: the judge compares with the snapshot taken
// right after decoding; nocopy fields are reported separately (they follow the input)
func (c *stepCtx) stepRecheck(st map[string]interface{}) string {
	k := num(st, "obj", -1)
	ov, ok := c.objs[k]
	if !ok {
		return fmt.Sprintf(`"ev":"Skipped","why":"no object from step %d"`, k)
	}
	ty := c.objTy[k]
	var nb bytes.Buffer
	nocopyNow(&nb, structT(ty), ov.Elem(), "")
	return fmt.Sprintf(`"ev":"Recheck","ty":%q,"obj":%d,"after":%q,"obs":{"out":"ok","snap":%q,"now":%q,"nocopy":[%s]}`,
		ty, k, str(st, "after", ""), c.snaps[k], valueDigestNoNocopy(ty, ov), strings.TrimSuffix(nb.String(), ","))
}

func nocopyNow(w *bytes.Buffer, t *TypeD, rv reflect.Value, path string) {
	if t.K != "struct" {
		return
	}
	if t.Ptr {
		if rv.IsNil() {
			return
		}
		rv = rv.Elem()
	}
	for _, f := range defs[t.S].Fields {
		fv := rv.Field(f.idx)
		if f.Nocopy {
			var b []byte
			if f.T.Ptr {
				if fv.IsNil() {
					continue
				}
				fv = fv.Elem()
			}
			if f.T.K == "string" {
				b = []byte(fv.String())
			} else {
				b = fv.Bytes()
			}
			fmt.Fprintf(w, `{"path":%q,"bytes":%s},`, path+"."+f.Key, jbytes(b))
		} else if f.T.K == "struct" {
			nocopyNow(w, f.T, fv, path+"."+f.Key)
		}
	}
}

func clamp(x uint64) int {
	if x > 2000000000 {
		return 2000000000
	}
	return int(x)
}
