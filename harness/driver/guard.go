package main

import (
	"syscall"
)

// guardBuf places inputs so that they end exactly at an inaccessible page: any read past the
// end of the input faults and kills the process, which the orchestrator records as a crash.
var guardMem []byte

const guardArea = 1 << 20

func guardedCopy(in []byte) []byte {
	if len(in) > guardArea {
		return append(make([]byte, 0, len(in)), in...)
	}
	if guardMem == nil {
		ps := syscall.Getpagesize()
		m, err := syscall.Mmap(-1, 0, guardArea+ps, syscall.PROT_READ|syscall.PROT_WRITE, syscall.MAP_ANON|syscall.MAP_PRIVATE)
		if err != nil {
			return append(make([]byte, 0, len(in)), in...)
		}
		if err := syscall.Mprotect(m[guardArea:], syscall.PROT_NONE); err != nil {
			return append(make([]byte, 0, len(in)), in...)
		}
		guardMem = m[:guardArea:guardArea]
	}
	dst := guardMem[guardArea-len(in) : guardArea : guardArea]
	copy(dst, in)
	return dst
}
