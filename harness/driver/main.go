// Command driver executes scenario scripts against the real frugal built from /repo's
// working tree and records what happened as NDJSON.  It contains no oracle: every line
// holds the call's arguments and raw observations; judging them is the job of the TLA+
// trace specification (spec/ApiTrace.tla).
package main

import (
	"bufio"
	"bytes"
	"encoding/json"
	"flag"
	"fmt"
	"os"
	"runtime/debug"
	"sync/atomic"
	"time"
)

type Scenario struct {
	Sid   string                   `json:"sid"`
	Prop  string                   `json:"prop"`
	Vals  []interface{}            `json:"vals"`
	Steps []map[string]interface{} `json:"steps"`
}

var (
	out       *bufio.Writer
	outFile   *os.File
	stepStart atomic.Int64 // unix nanos of the running step, 0 if idle
	stepLimit = 20 * time.Second
)

func emit(line string) {
	out.WriteString(line)
	out.WriteByte('\n')
	out.Flush()
}

func main() {
	defsPath := flag.String("defs", "", "defs json")
	scenPath := flag.String("scen", "", "scenario ndjson")
	outPath := flag.String("out", "", "trace ndjson (appended)")
	skip := flag.Int("skip", 0, "number of scenarios to skip")
	skipSteps := flag.Int("skipsteps", 0, "number of steps of the first executed scenario to skip")
	maxStack := flag.Int("maxstack", 0, "debug.SetMaxStack bytes")
	flag.Parse()
	if *maxStack > 0 {
		debug.SetMaxStack(*maxStack)
	}
	if err := loadDefs(*defsPath); err != nil {
		fmt.Fprintln(os.Stderr, "harness:", err)
		os.Exit(4)
	}
	sf, err := os.Open(*scenPath)
	if err != nil {
		fmt.Fprintln(os.Stderr, "harness:", err)
		os.Exit(4)
	}
	outFile, err = os.OpenFile(*outPath, os.O_APPEND|os.O_CREATE|os.O_WRONLY, 0o644)
	if err != nil {
		fmt.Fprintln(os.Stderr, "harness:", err)
		os.Exit(4)
	}
	out = bufio.NewWriterSize(outFile, 1<<20)
	go watchdog()

	rd := bufio.NewReaderSize(sf, 1<<20)
	idx := 0
	for {
		line, err := rd.ReadBytes('\n')
		if len(bytes.TrimSpace(line)) > 0 {
			if idx >= *skip {
				var sc Scenario
				if e := json.Unmarshal(line, &sc); e != nil {
					fmt.Fprintln(os.Stderr, "harness: bad scenario:", e)
					os.Exit(4)
				}
				first := 0
				if idx == *skip {
					first = *skipSteps
				}
				runScenario(idx, &sc, first)
			}
			idx++
		}
		if err != nil {
			break
		}
	}
	emit(`{"ev":"End"}`)
	outFile.Close()
}

// watchdog turns a step that does not return into an observation and ends the process;
// the orchestrator restarts the driver behind that step.
func watchdog() {
	for {
		time.Sleep(200 * time.Millisecond)
		st := stepStart.Load()
		if st != 0 && time.Since(time.Unix(0, st)) > stepLimit {
			// the step line was announced by an Intent record; the parent synthesises
			// the observation "timeout" for it.
			fmt.Fprintln(os.Stderr, "harness: step timeout")
			os.Exit(3)
		}
	}
}
