package main

import (
	"fmt"
	"reflect"
	"runtime"
	"sync"
)

// stepPar runs several step lists concurrently, one goroutine each, all released together.
// Every call is recorded as its own line (tagged with the thread), so each is judged exactly
// like a sequential call.
func (c *stepCtx) stepPar(k int, st map[string]interface{}) []string {
	threads, _ := st["threads"].([]interface{})
	if p := num(st, "gomaxprocs", 0); p > 0 {
		defer runtime.GOMAXPROCS(runtime.GOMAXPROCS(p))
	}
	rounds := num(st, "rounds", 1)
	var mu sync.Mutex
	var wg sync.WaitGroup
	start := make(chan struct{})
	for ti, th := range threads {
		steps, _ := th.([]interface{})
		wg.Add(1)
		go func(ti int, steps []interface{}) {
			defer wg.Done()
			// per-thread context: objects and outputs are not shared between goroutines
			local := &stepCtx{sc: c.sc, outs: map[int][]byte{}, objs: map[int]reflect.Value{}, par: true}
			local.emitLine = func(line string) {
				mu.Lock()
				c.emitLine(fmt.Sprintf(`"thr":%d,%s`, ti, line))
				mu.Unlock()
			}
			<-start
			for r := 0; r < rounds; r++ {
				for si, s := range steps {
					sm, _ := s.(map[string]interface{})
					for _, line := range local.runStep(si, sm) {
						local.emitLine(line)
					}
				}
			}
		}(ti, steps)
	}
	close(start)
	wg.Wait()
	return []string{fmt.Sprintf(`"ev":"Par","threads":%d,"obs":{"out":"ok"}`, len(threads))}
}
