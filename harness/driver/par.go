package main

import (
	"fmt"
	"reflect"
	"runtime"
	"sort"
	"sync"
)

// stepPar runs several step lists concurrently, one goroutine each, all released together.
// Every call is recorded as its own line (tagged with the thread), so each is judged exactly
// like a sequential call.
func (c *stepCtx) stepPar(k int, st map[string]interface{}) []string {
	threads, _ := st["threads"].([]interface{})
	if g := num(st, "collide", 0); g > 0 {
		// readers in steady state on registered types while a writer makes the first use of types that
		// fall into the SAME slots of the descriptor table (the slot of a type is the low 16 bits of
		// the address of its runtime type - a fact about the table, not about what calls return)
		pairs := colPairs(g)
		if len(pairs) == 0 {
			return []string{`"ev":"Skipped","why":"no colliding unused types left"`}
		}
		f := func(op, ty string, byval bool) interface{} {
			m := map[string]interface{}{"op": op, "ty": ty, "v": float64(0), "byval": byval}
			if op == "encode" {
				m["buf"] = map[string]interface{}{"mode": "rel", "n": float64(0), "extra": float64(0)}
			}
			return m
		}
		var rd, wr []interface{}
		for _, p := range pairs {
			sm := f("size", p[0], false).(map[string]interface{})
			for _, line := range c.runStep(k, sm) {
				c.emitLine(line)
			}
			rd = append(rd, f("encode", p[0], false), f("size", p[0], true)) // looks up *T and T
			wr = append(wr, f("encode", p[1], false), f("size", p[1], true))
		}
		threads = []interface{}{wr}
		for i := 0; i < num(st, "readers", 3); i++ {
			threads = append(threads, rd)
		}
	}
	if p := num(st, "gomaxprocs", 0); p > 0 {
		defer runtime.GOMAXPROCS(runtime.GOMAXPROCS(p))
	}
	rounds := num(st, "rounds", 1)
	var mu sync.Mutex
	var wg sync.WaitGroup
	start := make(chan struct{})
	for ti, th := range threads {
		steps, _ := th.([]interface{})
		wg.Add(1)
		go func(ti int, steps []interface{}) {
			defer wg.Done()
			// per-thread context: objects and outputs are not shared between goroutines
			local := &stepCtx{sc: c.sc, outs: map[int][]byte{}, objs: map[int]reflect.Value{}, par: true}
			local.emitLine = func(line string) {
				mu.Lock()
				c.emitLine(fmt.Sprintf(`"thr":%d,%s`, ti, line))
				mu.Unlock()
			}
			<-start
			for r := 0; r < rounds; r++ {
				for si, s := range steps {
					sm, _ := s.(map[string]interface{})
					for _, line := range local.runStep(si, sm) {
						local.emitLine(line)
					}
				}
			}
		}(ti, steps)
	}
	close(start)
	wg.Wait()
	return []string{fmt.Sprintf(`"ev":"Par","threads":%d,"obs":{"out":"ok"}`, len(threads))}
}

// colPairs picks up to g pairs (registered-first, first-used-concurrently) of so far unused generated
// types named Col<n> whose runtime types share a slot of the descriptor table.
var colUsed = map[string]bool{}

func colPairs(g int) [][2]string { return colPairsMode(g, false) }

// ptrOnly: both types must share the slot of their POINTER types (the key every call with a pointer looks up)
func colPairsMode(g int, ptrOnly bool) [][2]string {
	by := map[uintptr][]string{}
	var names []string
	for name := range genTypes {
		if len(name) > 3 && name[:3] == "Col" && !colUsed[name] {
			names = append(names, name)
		}
	}
	sort.Strings(names)
	var out [][2]string
	// a type occupies the slot of T and (used through a pointer) the slot of *T
	slots := func(name string) []uintptr {
		if ptrOnly {
			return []uintptr{abiOf(reflect.PtrTo(genTypes[name])) & 0xffff}
		}
		return []uintptr{abiOf(genTypes[name]) & 0xffff, abiOf(reflect.PtrTo(genTypes[name])) & 0xffff}
	}
	for _, name := range names {
		for _, b := range slots(name) {
			by[b] = append(by[b], name)
		}
	}
	for _, name := range names {
		if colUsed[name] {
			continue
		}
		for _, b := range slots(name) {
			other := ""
			for _, o := range by[b] {
				if o != name && !colUsed[o] {
					other = o
					break
				}
			}
			if other != "" {
				out = append(out, [2]string{name, other})
				colUsed[name], colUsed[other] = true, true
				break
			}
		}
		if len(out) == g {
			break
		}
	}
	return out
}
