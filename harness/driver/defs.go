package main

import (
	"encoding/json"
	"fmt"
	"os"
	"reflect"
)

// TypeD mirrors the type records of spec/Schema.tla.
type TypeD struct {
	K   string `json:"k"`
	Ptr bool   `json:"ptr"`
	E   *TypeD `json:"e"`
	KT  *TypeD `json:"kt"`
	VT  *TypeD `json:"vt"`
	S   string `json:"s"`
	// raw overrides, only for definitions outside the supported language
	GoType string `json:"gotype"`
}

type FieldD struct {
	ID     int         `json:"id"`
	Key    string      `json:"key"`
	Req    string      `json:"req"`
	T      *TypeD      `json:"t"`
	Nocopy bool        `json:"nocopy"`
	Name   []int       `json:"name"`
	Def    interface{} `json:"def"`
	Opaque bool        `json:"opaque"` // field is not projected (unsupported Go type)

	idx int // index of the field in the Go struct
}

type StructD struct {
	Fields []*FieldD `json:"fields"`
	Init   bool      `json:"init"`
	Unk    bool      `json:"unk"`

	name   string
	rt     reflect.Type
	unkOff uintptr
}

var defs map[string]*StructD

func (f *FieldD) goName() string {
	b := make([]byte, len(f.Name))
	for i, x := range f.Name {
		b[i] = byte(x)
	}
	return string(b)
}

func loadDefs(path string) error {
	raw, err := os.ReadFile(path)
	if err != nil {
		return err
	}
	if err := json.Unmarshal(raw, &defs); err != nil {
		return err
	}
	for name, d := range defs {
		d.name = name
		rt, ok := genTypes[name]
		if !ok {
			return fmt.Errorf("type %s not compiled in", name)
		}
		d.rt = rt
		for _, f := range d.Fields {
			sf, ok := rt.FieldByName(f.goName())
			if !ok {
				return fmt.Errorf("type %s has no field %s", name, f.goName())
			}
			f.idx = sf.Index[0]
		}
		if d.Unk {
			sf, ok := rt.FieldByName("_unknownFields")
			if !ok {
				return fmt.Errorf("type %s has no holder", name)
			}
			d.unkOff = sf.Offset
		}
	}
	return nil
}
