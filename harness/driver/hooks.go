package main

import (
	"bytes"
	"fmt"
	"os"
	"reflect"
	"runtime"
	"strconv"
	"sync"
	"sync/atomic"
	"unsafe"

	"github.com/cloudwego/frugal/verifhook"
)

// Instrumentation events of the library (build tag verif) recorded while a step asks for them.
type hookEv struct {
	ev      int
	a, b, c uintptr
	g       int
}

var (
	hookOn         atomic.Bool
	hookMu         sync.Mutex
	hookBuf        []hookEv
	pendingBlocks  []hookEv
	regBuf         []hookEv
	unrecorded     atomic.Int64
	hookAllocBytes atomic.Uint64
	hooksCont      bool
	regLines       int
	abiNames       map[uintptr]abiName
)

type abiName struct {
	s string
	p bool
}

func abiOf(t reflect.Type) uintptr {
	return uintptr((*[2]unsafe.Pointer)(unsafe.Pointer(&t))[1])
}

var abiOnce sync.Once

func nameOfAbi(a uintptr) abiName {
	abiOnce.Do(func() {
		abiNames = map[uintptr]abiName{}
		for name, rt := range genTypes {
			abiNames[abiOf(rt)] = abiName{name, false}
			abiNames[abiOf(reflect.PtrTo(rt))] = abiName{name, true}
		}
	})
	return abiNames[a]
}

// regLine renders the registry events recorded since the last call ("" if none): type addresses
// become the names of the generated types (s = "" for a type that is not one of them).
func regLine() string {
	hookMu.Lock()
	evs := append([]hookEv(nil), regBuf...)
	regBuf = regBuf[:0]
	hookMu.Unlock()
	if len(evs) == 0 {
		return ""
	}
	var b bytes.Buffer
	fmt.Fprintf(&b, `"ev":"Reg","pe":%d,"rs":%d,"obs":{"out":"ok","events":[`, os.Getpid(), regLines)
	regLines++
	for i, e := range evs {
		if i > 0 {
			b.WriteByte(',')
		}
		kind := map[int]string{verifhook.EvSlotStore: "store", verifhook.EvGotLock: "lock", verifhook.EvUnlock: "unlock",
			verifhook.EvPfWrite: "pf", verifhook.EvLinkWrite: "link", verifhook.EvRollback: "rollback"}[e.ev]
		if e.ev == verifhook.EvRollback {
			fmt.Fprintf(&b, `{"k":"rollback","s":"","p":false,"np":%d,"nl":%d}`, clampU(e.a), clampU(e.b))
			continue
		}
		n := nameOfAbi(e.a)
		fmt.Fprintf(&b, `{"k":%q,"s":%q,"p":%v}`, kind, n.s, n.p)
	}
	b.WriteString(`]}`)
	return b.String()
}

func init() {
	verifhook.Set(func(ev int, a, b, c uintptr) {
		// bytes the decoder's own allocator asked the runtime for (new blocks and direct allocations): exact and
		// per call, unlike the process-wide counters of the runtime
		if ev == verifhook.EvSpanBlock || ev == verifhook.EvMallocDirect {
			hookAllocBytes.Add(uint64(a))
		}
		if ev >= verifhook.EvSlotStore {
			// registry events are always kept: the sequential registry model (spec/RegSeq.tla) follows
			// every lock section of the process.  All of them are emitted under the registry mutex.
			hookMu.Lock()
			regBuf = append(regBuf, hookEv{ev, a, b, c, 0})
			hookMu.Unlock()
			gate(hookEv{ev, a, b, c, 0}) // holds the goroutine of a gated step (forced schedules), else returns at once
		}
		if !hookOn.Load() {
			if ev == verifhook.EvSpanMalloc {
				unrecorded.Add(1) // the model's allocator state is stale after this: the next Hooks line says so
			}
			if ev == verifhook.EvSpanBlock {
				// a block taken while nothing is recorded: remember it, so that the next recorded
				// allocation is reported relative to the right block
				hookMu.Lock()
				pendingBlocks = append(pendingBlocks, hookEv{ev, a, b, c, -1}) // g = -1: taken while not recording
				hookMu.Unlock()
			}
			return
		}
		g := 0
		if ev >= verifhook.EvSlotStore { // registry events: which goroutine
			g = goid()
		}
		hookMu.Lock()
		hookBuf = append(hookBuf, hookEv{ev, a, b, c, g})
		hookMu.Unlock()
	})
}

func goid() int {
	var buf [64]byte
	n := runtime.Stack(buf[:], false)
	// "goroutine 123 [running]:"
	f := bytes.Fields(buf[:n])
	if len(f) < 2 {
		return 0
	}
	id, _ := strconv.Atoi(string(f[1]))
	return id
}

func hooksStart() {
	hooksCont = unrecorded.Swap(0) == 0
	hookMu.Lock()
	hookBuf = append(hookBuf[:0], pendingBlocks...)
	pendingBlocks = pendingBlocks[:0]
	hookMu.Unlock()
	hookOn.Store(true)
}

// hooksLine ends recording and renders the events; addresses become small numbers:
// spans, goroutines and types are numbered in order of appearance (stable across the process
// for spans and types), allocation results are given relative to the span's current block.
var (
	spanIDs  = map[uintptr]int{}
	spanBase = map[uintptr]uintptr{}
	typeIDs  = map[uintptr]int{}
)

func hooksLine() string {
	hookOn.Store(false)
	hookMu.Lock()
	evs := append([]hookEv(nil), hookBuf...)
	hookMu.Unlock()
	gids := map[int]int{}
	var b bytes.Buffer
	// cont: no allocation was served unrecorded since the previous Hooks line (else the model starts afresh)
	fmt.Fprintf(&b, `"ev":"Hooks","cont":%v,"obs":{"out":"ok","events":[`, hooksCont)
	for i, e := range evs {
		if i > 0 {
			b.WriteByte(',')
		}
		switch e.ev {
		case verifhook.EvSpanBlock:
			id := idOf(spanIDs, e.c)
			spanBase[e.c] = e.b
			if e.g == -1 {
				// taken while nothing was recorded: allocations may have been served from it since; only the base
				// address is known (the model forgets the span and adopts the next allocation it sees)
				fmt.Fprintf(&b, `{"k":"base","span":%d}`, id)
			} else {
				fmt.Fprintf(&b, `{"k":"block","span":%d,"size":%d,"bm":%d}`, id, clampU(e.a), e.b%4096)
			}
		case verifhook.EvSpanMalloc:
			id := idOf(spanIDs, e.c)
			rel := -1
			if base, ok := spanBase[e.c]; ok && e.b >= base && e.b-base < 1<<30 {
				rel = int(e.b - base)
			}
			fmt.Fprintf(&b, `{"k":"malloc","span":%d,"n":%d,"align":%d,"rel":%d,"amod":%d}`, id, clampU(e.a>>8), e.a&0xff, rel, e.b%64)
		case verifhook.EvMallocDirect:
			fmt.Fprintf(&b, `{"k":"direct","n":%d,"typed":%v}`, clampU(e.a), e.b != 0)
		default:
			g, ok := gids[e.g]
			if !ok {
				g = len(gids) + 1
				gids[e.g] = g
			}
			kind := map[int]string{verifhook.EvSlotStore: "store", verifhook.EvGotLock: "lock", verifhook.EvUnlock: "unlock",
				verifhook.EvPfWrite: "pf", verifhook.EvLinkWrite: "link", verifhook.EvRollback: "rollback", verifhook.EvSlotLoad: "load"}[e.ev]
			fmt.Fprintf(&b, `{"k":%q,"g":%d,"ty":%d,"x":%d}`, kind, g, idOf(typeIDs, e.a), clampU(e.b))
		}
	}
	b.WriteString(`]}`)
	return b.String()
}

func idOf(m map[uintptr]int, k uintptr) int {
	if id, ok := m[k]; ok {
		return id
	}
	m[k] = len(m) + 1
	return m[k]
}

func clampU(x uintptr) int {
	if x > 2000000000 {
		return 2000000000
	}
	return int(x)
}
