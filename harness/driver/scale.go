package main

import (
	"encoding/binary"
	"fmt"
	"reflect"
	"runtime"
	"strings"
	"syscall"
	"time"
	"unsafe"
)

// "time proportional to the input" (C05): inputs of one shape at several sizes.  The input is
// prefix + count (4 bytes) + count elements + suffix; an element is a concatenation of literal
// parts and big-endian counters (so that elements are distinct).  The same builder, in the
// orchestrator, makes the small instance that the trace specification checks byte by byte; here
// only sizes, outcomes, consumed lengths, CPU time of the calling thread and allocation are recorded.
func buildScaled(st map[string]interface{}, count int) []byte {
	out := append([]byte(nil), bytesOf(st["prefix"])...)
	out = binary.BigEndian.AppendUint32(out, uint32(count))
	parts, _ := st["elem"].([]interface{})
	for i := 0; i < count; i++ {
		for _, p := range parts {
			pm, _ := p.(map[string]interface{})
			if w := num(pm, "ctr", 0); w > 0 {
				var b [8]byte
				binary.BigEndian.PutUint64(b[:], uint64(i))
				out = append(out, b[8-w:]...)
			} else {
				out = append(out, bytesOf(pm["lit"])...)
			}
		}
	}
	return append(out, bytesOf(st["suffix"])...)
}

func bytesOf(x interface{}) []byte {
	l, _ := x.([]interface{})
	b := make([]byte, len(l))
	for i, v := range l {
		f, _ := v.(float64)
		b[i] = byte(f)
	}
	return b
}

// CPU time of the calling thread in microseconds (CLOCK_THREAD_CPUTIME_ID: nanosecond resolution, not
// affected by other processes competing for the cores)
func threadCPU() int64 {
	var ts syscall.Timespec
	syscall.Syscall(syscall.SYS_CLOCK_GETTIME, 3, uintptr(unsafe.Pointer(&ts)), 0)
	return ts.Sec*1000000 + ts.Nsec/1000
}

func (c *stepCtx) stepScale(st map[string]interface{}) string {
	ty := str(st, "ty", "")
	d := defs[ty]
	counts, _ := st["counts"].([]interface{})
	runtime.LockOSThread()
	defer runtime.UnlockOSThread()
	var lens, outs, ns, us, al []string
	res := "ok"
	for _, cf := range counts {
		cnt := int(cf.(float64))
		in := buildScaled(st, cnt)
		runtime.GC() // every size starts from a collected heap
		best := int64(-1)
		var alloc uint64
		out, n := "ok", 0
		for rep := 0; rep < 3; rep++ {
			stepStart.Store(time.Now().UnixNano()) // the watchdog limit applies to one call, not to the whole series
			dest := reflect.New(d.rt)
			var m0, m1 runtime.MemStats
			runtime.ReadMemStats(&m0)
			t0 := threadCPU()
			nn, err, pan := callDecode(in, dest.Interface())
			t1 := threadCPU()
			runtime.ReadMemStats(&m1)
			if rep == 0 {
				alloc = m1.TotalAlloc - m0.TotalAlloc
			}
			if pan != nil {
				out = "panic"
			} else if err != nil {
				out = "err"
			}
			n = nn
			if best < 0 || t1-t0 < best {
				best = t1 - t0
			}
		}
		if out != "ok" {
			res = out
		}
		lens = append(lens, fmt.Sprint(len(in)))
		outs = append(outs, fmt.Sprintf("%q", out))
		ns = append(ns, fmt.Sprint(n))
		us = append(us, fmt.Sprint(clamp(uint64(best))))
		al = append(al, fmt.Sprint(clamp(alloc)))
	}
	j := func(l []string) string { return "[" + strings.Join(l, ",") + "]" }
	return fmt.Sprintf(`"ev":"Scale","ty":%q,"shape":%q,"lens":%s,"obs":{"out":%q,"outs":%s,"ns":%s,"us":%s,"alloc":%s}`,
		ty, str(st, "shape", ""), j(lens), res, j(outs), j(ns), j(us), j(al))
}

// the same small input decoded many times in a row (one pooled decoder state serves them all): the largest
// allocation of any single call and the total
func (c *stepCtx) stepRepeat(st map[string]interface{}) string {
	ty := str(st, "ty", "")
	d := defs[ty]
	in := bytesOf(st["in"])
	times := num(st, "times", 1000)
	var maxA, total, maxH uint64
	bad := 0
	var m0, m1 runtime.MemStats
	for i := 0; i < times; i++ {
		if i%500 == 0 {
			stepStart.Store(time.Now().UnixNano()) // progress (the watchdog limit applies to a stretch of calls, not to the series)
		}
		dest := reflect.New(d.rt)
		buf := append([]byte(nil), in...)
		runtime.ReadMemStats(&m0)
		h0 := hookAllocBytes.Load()
		_, err, pan := callDecode(buf, dest.Interface())
		if h := hookAllocBytes.Load() - h0; h > maxH {
			maxH = h
		}
		runtime.ReadMemStats(&m1)
		a := m1.TotalAlloc - m0.TotalAlloc
		if a > uint64(2048*len(in)+(512<<10)) {
			// process-wide counter: a figure out of proportion is measured once more, the smaller one counts
			dest2 := reflect.New(d.rt)
			buf2 := append([]byte(nil), in...)
			runtime.ReadMemStats(&m0)
			callDecode(buf2, dest2.Interface())
			runtime.ReadMemStats(&m1)
			if b := m1.TotalAlloc - m0.TotalAlloc; b < a {
				a = b
			}
		}
		if a > maxA {
			maxA = a
		}
		total += a
		if err != nil || pan != nil {
			bad++
		}
	}
	return fmt.Sprintf(`"ev":"Repeat","ty":%q,"len":%d,"times":%d,"obs":{"out":"ok","bad":%d,"maxalloc":%d,"avgalloc":%d,"maxhook":%d}`,
		ty, len(in), times, bad, clamp(maxA), clamp(total/uint64(times)), clamp(maxH))
}
