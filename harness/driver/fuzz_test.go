package main

import (
	"os"
	"reflect"
	"sort"
	"testing"

	"github.com/cloudwego/frugal"
)

// FuzzDecode is only an INPUT SOURCE: Go's coverage-guided fuzzer explores the decoder; it never
// fails here (panics are swallowed).  The corpus it leaves behind is afterwards replayed by the
// driver and judged by the TLA+ trace specification like every other input.
// The first byte of an input selects the destination type; the rest is the message.
func FuzzDecode(f *testing.F) {
	if err := loadDefs(os.Getenv("VERIF_DEFS")); err != nil {
		f.Skip("no defs: " + err.Error())
	}
	var names []string
	for n := range defs {
		names = append(names, n)
	}
	sort.Strings(names)
	if seeds := os.Getenv("VERIF_FUZZ_SEEDS"); seeds != "" {
		for _, s := range readSeedFile(seeds) {
			f.Add(s)
		}
	}
	f.Add([]byte{0, 0})
	f.Fuzz(func(t *testing.T, data []byte) {
		if len(data) == 0 || len(data) > 4096 {
			return
		}
		d := defs[names[int(data[0])%len(names)]]
		dest := reflect.New(d.rt)
		func() {
			defer func() { recover() }()
			frugal.DecodeObject(data[1:], dest.Interface())
		}()
	})
}
