package main

import (
	"fmt"
	"reflect"
	"runtime"
)

// Deeply nested messages for the depth property.  A pattern names how one more level of
// nesting is produced below a struct of the recursive types Re (field 2: *Re, field 3:
// list<*Re>, field 4: map<string,*Re>) and ReK (field 2: map<*ReK,i32>), or inside a field
// the type does not know (id 99).  The judge re-derives the depth of the small ones from the
// bytes, so this synthesis is checked, not trusted.
//
//	open(pattern)  bytes that open one repetition, ending where the nested struct starts
//	close(pattern) bytes that follow the nested struct's STOP
func deepParts(pattern string) (open, clos []byte, levelsPer int, ok bool) {
	switch pattern {
	case "struct": // field 2: *Re
		return []byte{12, 0, 2}, nil, 1, true
	case "list": // field 3: list<*Re> with one element
		return []byte{15, 0, 3, 12, 0, 0, 0, 1}, nil, 2, true
	case "mapval": // field 4: map<string,*Re> with one entry "k"
		return []byte{13, 0, 4, 11, 12, 0, 0, 0, 1, 0, 0, 0, 1, 'k'}, nil, 2, true
	case "mapkey": // ReK field 2: map<*ReK,i32> with one entry, value 7 after the key
		return []byte{13, 0, 2, 12, 8, 0, 0, 0, 1}, []byte{0, 0, 0, 7}, 2, true
	case "ustruct": // unknown field 99 of type struct
		return []byte{12, 0, 99}, nil, 1, true
	case "ulist": // unknown field 99: list<struct> with one element
		return []byte{15, 0, 99, 12, 0, 0, 0, 1}, nil, 2, true
	case "umap": // unknown field 99: map<i32,struct> with one entry
		return []byte{13, 0, 99, 8, 12, 0, 0, 0, 1, 0, 0, 0, 5}, nil, 2, true
	}
	return nil, nil, 0, false
}

// deepMsg: pre repetitions of the prefix pattern, then d repetitions of the pattern, below the
// top-level struct.
func deepMsg(prefix string, pre int, pattern string, d int) (msg []byte, levels int) {
	open, clos, per, ok := deepParts(pattern)
	if !ok {
		panic("harness: unknown deep pattern " + pattern)
	}
	var popen, pclos []byte
	pper := 0
	if pre > 0 {
		popen, pclos, pper, ok = deepParts(prefix)
		if !ok {
			panic("harness: unknown deep pattern " + prefix)
		}
	}
	msg = make([]byte, 0, d*(len(open)+len(clos)+1)+pre*(len(popen)+len(pclos)+1)+1)
	for i := 0; i < pre; i++ {
		msg = append(msg, popen...)
	}
	for i := 0; i < d; i++ {
		msg = append(msg, open...)
	}
	msg = append(msg, 0) // innermost struct: STOP
	for i := 0; i < d; i++ {
		msg = append(msg, clos...)
		msg = append(msg, 0) // STOP of the enclosing struct
	}
	for i := 0; i < pre; i++ {
		msg = append(msg, pclos...)
		msg = append(msg, 0)
	}
	return msg, 1 + d*per + pre*pper
}

// wideMsg: a shallow message (3 levels) holding one container with n entries of empty structs:
// "widelist" Re.3 list<*Re>, "widemap" Re.4 map<string,*Re>, "wideulist" unknown list<struct>
func wideMsg(pattern string, n int) (msg []byte, levels int) {
	be := []byte{byte(n >> 24), byte(n >> 16), byte(n >> 8), byte(n)}
	switch pattern {
	case "widelist":
		msg = append([]byte{15, 0, 3, 12}, be...)
		for i := 0; i < n; i++ {
			msg = append(msg, 0)
		}
	case "wideulist":
		msg = append([]byte{15, 0, 99, 12}, be...)
		for i := 0; i < n; i++ {
			msg = append(msg, 0)
		}
	case "widemap":
		msg = append([]byte{13, 0, 4, 11, 12}, be...)
		for i := 0; i < n; i++ {
			k := fmt.Sprintf("%07d", i)
			msg = append(msg, 0, 0, 0, 7)
			msg = append(msg, k...)
			msg = append(msg, 0)
		}
	default:
		panic("harness: unknown wide pattern " + pattern)
	}
	return append(msg, 0), 3
}

func (c *stepCtx) deepOne(ty, prefix string, pre int, pattern string, d int) (string, bool) {
	var msg []byte
	var levels int
	if len(pattern) > 4 && pattern[:4] == "wide" {
		msg, levels = wideMsg(pattern, d)
	} else {
		msg, levels = deepMsg(prefix, pre, pattern, d)
	}
	if pre > 0 {
		pattern = fmt.Sprintf("%s*%d+%s", prefix, pre, pattern)
	}
	dest := reflect.New(defs[ty].rt)
	n, err, pan := callDecode(msg, dest.Interface())
	head := fmt.Sprintf(`"ev":"Deep","ty":%q,"pattern":%q,"d":%d,"levels":%d,"len":%d,`, ty, pattern, d, levels, len(msg))
	full := len(msg) <= 700 && levels <= 70 // the JSON reader of the judge nests at most 255 deep
	if full {
		head += `"in":` + jbytes(msg) + `,"dest":` + projectStruct(ty, reflect.New(defs[ty].rt)) + `,`
	}
	head += `"obs":{"inpre":"","inpost":"","alloc":0,"us":0,`
	runtime.KeepAlive(dest)
	if pan != nil {
		return head + panicObs(pan) + "}", false
	}
	if err != nil {
		return head + fmt.Sprintf(`"out":"err","n":%d,`, n) + errObs(err) + "}", false
	}
	return head + fmt.Sprintf(`"out":"ok","n":%d,"val":%s}`, n, valOrEmpty(ty, dest, full)), true
}

func valOrEmpty(ty string, dest reflect.Value, full bool) string {
	if full {
		return projectStruct(ty, dest)
	}
	return `{}`
}

// stepDeep probes the given depths and then bisects between the deepest accepted and the
// shallowest rejected depth; one trace line per probe.
func (c *stepCtx) stepDeep(st map[string]interface{}) []string {
	ty := str(st, "ty", "")
	pattern := str(st, "pattern", "struct")
	prefix := str(st, "prefix", "")
	pre := num(st, "pre", 0)
	var lines []string
	maxOK, minRej := 0, -1
	probe := func(d int) {
		line, ok := c.deepOne(ty, prefix, pre, pattern, d)
		c.emitLine(line) // at once: a later probe may kill the process
		if ok {
			if d > maxOK {
				maxOK = d
			}
		} else if minRej < 0 || d < minRej {
			minRej = d
		}
	}
	if ds, ok := st["depths"].([]interface{}); ok {
		for _, x := range ds {
			probe(int(x.(float64)))
		}
	}
	if boolean(st, "bisect") && minRej > 0 {
		for minRej-maxOK > 1 {
			probe((maxOK + minRej) / 2)
		}
		// the neighbours of the threshold
		for _, d := range []int{maxOK - 1, maxOK, minRej, minRej + 1} {
			if d > 0 {
				probe(d)
			}
		}
	}
	return lines
}
