package main

import (
	"bytes"
	"fmt"
	"hash/fnv"
	"reflect"
	"sort"
	"strconv"
	"unsafe"
)

// Projection between abstract values (spec/Codec.tla "Go values", as decoded JSON)
// and real Go values.  Scalars are moved bit-exactly through unsafe pointers.

func goWidth(k string) int {
	switch k {
	case "bool", "i8":
		return 1
	case "i16":
		return 2
	case "i32":
		return 4
	case "i64", "double", "enum":
		return 8
	}
	return 0
}

func toBytes(a interface{}) []byte {
	arr, ok := a.([]interface{})
	if !ok {
		panic(fmt.Sprintf("harness: byte array expected, got %T", a))
	}
	b := make([]byte, len(arr))
	for i, x := range arr {
		b[i] = byte(x.(float64))
	}
	return b
}

func storeBE(p unsafe.Pointer, b []byte) {
	switch len(b) {
	case 1:
		*(*uint8)(p) = b[0]
	case 2:
		*(*uint16)(p) = uint16(b[0])<<8 | uint16(b[1])
	case 4:
		*(*uint32)(p) = uint32(b[0])<<24 | uint32(b[1])<<16 | uint32(b[2])<<8 | uint32(b[3])
	case 8:
		var x uint64
		for _, c := range b {
			x = x<<8 | uint64(c)
		}
		*(*uint64)(p) = x
	default:
		panic("harness: bad scalar width")
	}
}

func loadBE(p unsafe.Pointer, w int) []byte {
	b := make([]byte, w)
	switch w {
	case 1:
		b[0] = *(*uint8)(p)
	case 2:
		x := *(*uint16)(p)
		b[0], b[1] = byte(x>>8), byte(x)
	case 4:
		x := *(*uint32)(p)
		b[0], b[1], b[2], b[3] = byte(x>>24), byte(x>>16), byte(x>>8), byte(x)
	case 8:
		x := *(*uint64)(p)
		for i := 0; i < 8; i++ {
			b[i] = byte(x >> (56 - 8*uint(i)))
		}
	}
	return b
}

// build stores abstract value a of type t into dst (addressable, of the Go type for t).
func build(t *TypeD, a interface{}, dst reflect.Value) {
	if t.Ptr {
		m := a.(map[string]interface{})
		if m["p"].(float64) == 0 {
			dst.Set(reflect.Zero(dst.Type()))
			return
		}
		nv := reflect.New(dst.Type().Elem())
		buildV(t, m["v"], nv.Elem())
		dst.Set(nv)
		return
	}
	buildV(t, a, dst)
}

func buildV(t *TypeD, a interface{}, dst reflect.Value) {
	switch t.K {
	case "bool", "i8", "i16", "i32", "i64", "double", "enum":
		storeBE(dst.Addr().UnsafePointer(), toBytes(a))
	case "string":
		dst.SetString(string(toBytes(a)))
	case "binary":
		m := a.(map[string]interface{})
		if m["nil"].(bool) {
			dst.Set(reflect.Zero(dst.Type()))
		} else {
			dst.SetBytes(withSpare(toBytes(m["b"])))
		}
	case "list", "set":
		m := a.(map[string]interface{})
		if m["nil"].(bool) {
			dst.Set(reflect.Zero(dst.Type()))
			return
		}
		items := m["items"].([]interface{})
		s := reflect.MakeSlice(dst.Type(), len(items), len(items))
		for i, it := range items {
			build(t.E, it, s.Index(i))
		}
		dst.Set(s)
	case "map":
		m := a.(map[string]interface{})
		if m["nil"].(bool) {
			dst.Set(reflect.Zero(dst.Type()))
			return
		}
		ents := m["ents"].([]interface{})
		mv := reflect.MakeMapWithSize(dst.Type(), len(ents))
		for _, e := range ents {
			kv := e.([]interface{})
			k := reflect.New(dst.Type().Key()).Elem()
			v := reflect.New(dst.Type().Elem()).Elem()
			build(t.KT, kv[0], k)
			build(t.VT, kv[1], v)
			mv.SetMapIndex(k, v)
		}
		dst.Set(mv)
	case "struct":
		d := defs[t.S]
		m := a.(map[string]interface{})
		ff := m["f"].(map[string]interface{})
		for _, f := range d.Fields {
			if f.Opaque {
				continue
			}
			x, ok := ff[f.Key]
			if !ok {
				panic("harness: value lacks field " + f.Key + " of " + t.S)
			}
			build(f.T, x, dst.Field(f.idx))
		}
		if d.Unk {
			u := toBytes(m["unk"])
			hp := (*[]byte)(unsafe.Add(dst.Addr().UnsafePointer(), d.unkOff))
			if len(u) == 0 {
				*hp = nil
			} else {
				*hp = withSpare(u)
			}
		}
	default:
		panic("harness: kind " + t.K)
	}
}

// withSpare returns a copy of b whose backing array has spare capacity filled with a guard
// pattern: memory reachable from the value that no callee may touch.
func withSpare(b []byte) []byte {
	out := make([]byte, len(b), len(b)+6)
	copy(out, b)
	sp := out[len(b):cap(out)]
	for i := range sp {
		sp[i] = 0xEE
	}
	return out
}

// ---- Go value -> abstract JSON ------------------------------------------------

func putBytes(w *bytes.Buffer, b []byte) {
	w.WriteByte('[')
	for i, c := range b {
		if i > 0 {
			w.WriteByte(',')
		}
		w.WriteString(strconv.Itoa(int(c)))
	}
	w.WriteByte(']')
}

// project writes the abstract JSON of rv (addressable).  With canon=true map entries are
// sorted and address facts (slice pointer/len/cap, map pointer) are included: that form
// is only hashed, never judged.
func project(w *bytes.Buffer, t *TypeD, rv reflect.Value, canon bool) {
	if t.Ptr {
		if rv.IsNil() {
			w.WriteString(`{"p":0}`)
			return
		}
		w.WriteString(`{"p":1,"v":`)
		if canon {
			fmt.Fprintf(w, `"@%x",`, rv.Pointer())
		}
		projectV(w, t, rv.Elem(), canon)
		w.WriteByte('}')
		return
	}
	projectV(w, t, rv, canon)
}

func projectV(w *bytes.Buffer, t *TypeD, rv reflect.Value, canon bool) {
	switch t.K {
	case "bool", "i8", "i16", "i32", "i64", "double", "enum":
		putBytes(w, loadBE(rv.Addr().UnsafePointer(), goWidth(t.K)))
	case "string":
		s := rv.String()
		if canon {
			fmt.Fprintf(w, `"@%x",`, uintptr(unsafe.Pointer(unsafe.StringData(s))))
		}
		putBytes(w, []byte(s))
	case "binary":
		if rv.IsNil() {
			w.WriteString(`{"nil":true,"b":[]}`)
			return
		}
		if canon {
			fmt.Fprintf(w, `"@%x/%d/%d",`, rv.Pointer(), rv.Len(), rv.Cap())
			putBytes(w, rv.Bytes()[:rv.Cap()]) // including the spare capacity
		}
		w.WriteString(`{"nil":false,"b":`)
		putBytes(w, rv.Bytes())
		w.WriteByte('}')
	case "list", "set":
		if rv.IsNil() {
			w.WriteString(`{"nil":true,"items":[]}`)
			return
		}
		if canon {
			fmt.Fprintf(w, `"@%x/%d/%d",`, rv.Pointer(), rv.Len(), rv.Cap())
		}
		w.WriteString(`{"nil":false,"items":[`)
		for i := 0; i < rv.Len(); i++ {
			if i > 0 {
				w.WriteByte(',')
			}
			project(w, t.E, rv.Index(i), canon)
		}
		w.WriteString(`]}`)
	case "map":
		if rv.IsNil() {
			w.WriteString(`{"nil":true,"ents":[]}`)
			return
		}
		if canon {
			fmt.Fprintf(w, `"@%x/%d",`, rv.Pointer(), rv.Len())
		}
		w.WriteString(`{"nil":false,"ents":[`)
		var ents []string
		it := rv.MapRange()
		for it.Next() {
			var e bytes.Buffer
			k := reflect.New(rv.Type().Key()).Elem()
			k.Set(it.Key())
			v := reflect.New(rv.Type().Elem()).Elem()
			v.Set(it.Value())
			e.WriteByte('[')
			project(&e, t.KT, k, canon)
			e.WriteByte(',')
			project(&e, t.VT, v, canon)
			e.WriteByte(']')
			ents = append(ents, e.String())
		}
		if canon || sortMapEntries {
			sort.Strings(ents)
		}
		for i, e := range ents {
			if i > 0 {
				w.WriteByte(',')
			}
			w.WriteString(e)
		}
		w.WriteString(`]}`)
	case "struct":
		d := defs[t.S]
		w.WriteString(`{"f":{`)
		first := true
		for _, f := range d.Fields {
			if f.Opaque {
				continue
			}
			if !first {
				w.WriteByte(',')
			}
			first = false
			w.WriteString(strconv.Quote(f.Key))
			w.WriteByte(':')
			project(w, f.T, rv.Field(f.idx), canon)
		}
		w.WriteString(`},"unk":`)
		if d.Unk {
			hp := (*[]byte)(unsafe.Add(rv.Addr().UnsafePointer(), d.unkOff))
			if canon {
				h := (*[3]uintptr)(unsafe.Pointer(hp))
				fmt.Fprintf(w, `"@%x/%d/%d",`, h[0], h[1], h[2])
				putBytes(w, (*hp)[:cap(*hp)]) // including the spare capacity
			}
			putBytes(w, *hp)
		} else {
			w.WriteString("[]")
		}
		w.WriteByte('}')
	default:
		panic("harness: kind " + t.K)
	}
}

// sortMapEntries makes the plain projection independent of map iteration order (digests)
var sortMapEntries bool

func structT(name string) *TypeD { return &TypeD{K: "struct", S: name} }

// projectStruct returns the abstract JSON of the struct pointed to by ptr (a *S).
func projectStruct(name string, ptr reflect.Value) string {
	var w bytes.Buffer
	project(&w, structT(name), ptr.Elem(), false)
	return w.String()
}

// digest hashes the canonical deep snapshot (values and address facts) of *S.
func digest(name string, ptr reflect.Value) string {
	var w bytes.Buffer
	project(&w, structT(name), ptr.Elem(), true)
	h := fnv.New64a()
	h.Write(w.Bytes())
	return strconv.FormatUint(h.Sum64(), 16)
}

func digestBytes(b []byte) string {
	h := fnv.New64a()
	h.Write(b)
	return strconv.FormatUint(h.Sum64(), 16)
}

// newValue builds a fresh *S holding abstract value a.
func newValue(name string, a interface{}) reflect.Value {
	d := defs[name]
	p := reflect.New(d.rt)
	buildV(structT(name), a, p.Elem())
	return p
}

// initDefault is what every generated InitDefault method calls: it stores the declared
// default (def) into every field, i.e. the `*p = S{...}` style of generated code.
func initDefault(name string, p unsafe.Pointer) {
	d := defs[name]
	if d == nil {
		return // called while loading
	}
	rv := reflect.NewAt(d.rt, p).Elem()
	for _, f := range d.Fields {
		if f.Opaque || f.Def == nil {
			continue
		}
		// like generated code: only fields with a (non-zero) declared default are assigned; the rest of
		// the struct is whatever the caller provided - zeroed memory, if the decoder does its job
		tmp := reflect.New(rv.Field(f.idx).Type()).Elem()
		build(f.T, f.Def, tmp)
		if tmp.IsZero() {
			continue
		}
		rv.Field(f.idx).Set(tmp)
	}
}
