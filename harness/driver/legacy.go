package main

import (
	"encoding/json"
	"fmt"
	"reflect"
	"runtime"
	"runtime/debug"
	"strconv"
	"strings"

	"github.com/cloudwego/frugal"
	fdebug "github.com/cloudwego/frugal/debug"
)

// stepLegacy exercises one of the controls kept from the JIT era and records its raw result.
func (c *stepCtx) stepLegacy(k int, st map[string]interface{}) string {
	call := str(st, "call", "")
	arg := num(st, "arg", 0)
	if a, err := strconv.ParseInt(str(st, "argstr", ""), 10, 64); err == nil {
		arg = int(a) // values beyond 32 bits travel as decimal strings (TLC integers are 32-bit)
	}
	optsDesc, _ := json.Marshal(st["opts"])
	if st["opts"] == nil {
		optsDesc = []byte("[]")
	}
	head := fmt.Sprintf(`"ev":"Legacy","call":%q,"arg":"%d","opts":%s,"ty":%q,"obs":{`, call, arg, optsDesc, str(st, "ty", ""))
	var res string
	func() {
		defer func() {
			if p := recover(); p != nil {
				res = panicObs(p)
			}
		}()
		switch call {
		case "PretouchObj":
			// Pretouch with a pointer to an object the caller goes on using: kept as object k (with a snapshot), so that
			// a later recheck shows whether anything frugal did afterwards touched it
			ty, holder, iface := c.arg(st)
			err := frugal.Pretouch(iface)
			c.objs[k] = holder
			c.objTy[k] = ty
			c.snaps[k] = valueDigestNoNocopy(ty, holder)
			if err != nil {
				res = `"out":"err",` + errObs(err)
			} else {
				res = `"out":"ok","ret":"0","zero":true`
			}
		case "Pretouch", "PretouchOpts", "PretouchValue", "PretouchStruct", "PretouchOdd":
			var vt interface{}
			if d, ok := defs[str(st, "ty", "")]; ok {
				switch call {
				case "PretouchValue":
					vt = reflect.New(d.rt).Interface()
				case "PretouchStruct":
					vt = reflect.New(d.rt).Elem().Interface() // the struct itself, by value (may hold slices and maps)
				default:
					vt = d.rt
				}
			} else {
				vt = reflect.TypeOf(0)
			}
			if call == "PretouchOdd" {
				// "accepts any type": arguments that are no struct at all
				vt = []interface{}{[]int32{1, 2}, map[string]int32{"a": 1}, "text", 3.5, nil, &[]string{"x"}, func() {}, make(chan int)}[arg%8]
			}
			var err error
			if ol, ok := st["opts"].([]interface{}); ok && call == "PretouchOpts" {
				// an explicit list of options, in the given order: [["inline", a], ["ilsize", b], ["pretouch", c], ...]
				var oo []frugal.Option
				for _, o := range ol {
					pr, _ := o.([]interface{})
					if len(pr) != 2 {
						continue
					}
					name, _ := pr[0].(string)
					val, _ := pr[1].(float64)
					switch name {
					case "inline":
						oo = append(oo, frugal.WithMaxInlineDepth(int(val)))
					case "ilsize":
						oo = append(oo, frugal.WithMaxInlineILSize(int(val)))
					case "pretouch":
						oo = append(oo, frugal.WithMaxPretouchDepth(int(val)))
					}
				}
				err = frugal.Pretouch(vt, oo...)
			} else if call == "PretouchOpts" {
				err = frugal.Pretouch(vt, frugal.WithMaxInlineDepth(arg), frugal.WithMaxInlineILSize(arg*100), frugal.WithMaxPretouchDepth(arg))
			} else {
				err = frugal.Pretouch(vt)
			}
			if err != nil {
				res = `"out":"err",` + errObs(err)
			} else {
				res = `"out":"ok","ret":"0","zero":true`
			}
		case "NoJIT":
			frugal.NoJIT(arg != 0)
			res = `"out":"ok","ret":"0","zero":true`
		case "SetMaxInlineDepth":
			res = fmt.Sprintf(`"out":"ok","ret":"%d","zero":true`, frugal.SetMaxInlineDepth(arg))
		case "SetMaxInlineILSize":
			res = fmt.Sprintf(`"out":"ok","ret":"%d","zero":true`, frugal.SetMaxInlineILSize(arg))
		case "GetStats":
			s := fdebug.GetStats()
			res = fmt.Sprintf(`"out":"ok","ret":"0","zero":%v`, s == fdebug.Stats{})
		default:
			res = `"out":"unknown"`
		}
	}()
	return head + res + "}"
}

// stepAllocs: mallocs performed by 'calls' repetitions of EncodedSize and of EncodeObject on a
// pointer to the value with a sufficient buffer, after one warm-up call of each.
func (c *stepCtx) stepAllocs(st map[string]interface{}) string {
	if boolean(st, "collide") {
		// two warm types that share a slot of the descriptor table, used alternately (chosen like in par.go)
		pairs := colPairsMode(1, true)
		if len(pairs) == 0 {
			return `"ev":"Skipped","why":"no colliding unused types left"`
		}
		st = map[string]interface{}{"op": "allocs", "ty": pairs[0][0], "v": float64(0), "calls": st["calls"],
			"alt": map[string]interface{}{"ty": pairs[0][1], "v": float64(0)}}
	}
	ty, holder, iface := c.arg(st)
	calls := num(st, "calls", 100)
	head := fmt.Sprintf(`"ev":"Allocs","ty":%q,"v":%d,"calls":%d,"obs":{`, ty, num(st, "v", 0), calls)
	if gk := str(st, "grow", ""); gk != "" {
		// every call sees a value larger than any before (one string field grows): nothing may be remembered per size
		var fd *FieldD
		for _, f := range defs[ty].Fields {
			if f.Key == gk {
				fd = f
			}
		}
		if fd == nil {
			return head + `"out":"err","cls":"harness","msg":[]}`
		}
		ifs := make([]interface{}, calls)
		var keep []reflect.Value
		for i := 0; i < calls; i++ {
			h := newValue(ty, c.sc.Vals[num(st, "v", 0)])
			h.Elem().Field(fd.idx).SetString(strings.Repeat("g", 300+7*i))
			ifs[i] = h.Interface()
			keep = append(keep, h)
		}
		big := make([]byte, 1<<20)
		frugal.EncodedSize(iface) // the type has been used (with a small value)
		frugal.EncodeObject(big, nil, iface)
		old := debug.SetGCPercent(-1)
		defer debug.SetGCPercent(old)
		var m0, m1, m2 runtime.MemStats
		runtime.ReadMemStats(&m0)
		for i := 0; i < calls; i++ {
			frugal.EncodedSize(ifs[i])
		}
		runtime.ReadMemStats(&m1)
		for i := 0; i < calls; i++ {
			frugal.EncodeObject(big, nil, ifs[i])
		}
		runtime.ReadMemStats(&m2)
		runtime.KeepAlive(keep)
		return head + fmt.Sprintf(`"out":"ok","n":0,"size_mallocs":%d,"enc_mallocs":%d}`, clamp(m1.Mallocs-m0.Mallocs), clamp(m2.Mallocs-m1.Mallocs))
	}
	buf := make([]byte, 1<<16)
	n0, err0, pan0 := callEncode(buf, iface)
	if pan0 == nil && err0 != nil {
		buf = make([]byte, 1<<24)
		n0, err0, pan0 = callEncode(buf, iface)
	}
	if pan0 != nil {
		return head + panicObs(pan0) + "}"
	}
	if err0 != nil {
		return head + `"out":"err",` + errObs(err0) + "}"
	}
	if _, pan := callSize(iface); pan != nil {
		return head + panicObs(pan) + "}"
	}
	// "alt": a second (type, value) used alternately with the first - both long since warm
	var iface2 interface{}
	var holder2 reflect.Value
	buf2 := buf
	if alt, ok := st["alt"].(map[string]interface{}); ok {
		_, holder2, iface2 = c.arg(alt)
		buf2 = make([]byte, 1<<16)
		if _, err, pan := callEncode(buf2, iface2); pan != nil || err != nil {
			buf2 = make([]byte, 1<<24)
			if _, err, pan := callEncode(buf2, iface2); pan != nil || err != nil {
				return head + `"out":"err","alt":true,` + errObs(fmt.Errorf("alt value: %v %v", err, pan)) + "}"
			}
		}
		if _, pan := callSize(iface2); pan != nil {
			return head + panicObs(pan) + "}"
		}
		// once more in the order of the measurement
		callSize(iface)
		callSize(iface2)
		callEncode(buf, iface)
		callEncode(buf2, iface2)
	}
	old := debug.SetGCPercent(-1)
	defer debug.SetGCPercent(old)
	var m0, m1, m2 runtime.MemStats
	runtime.ReadMemStats(&m0)
	for i := 0; i < calls; i++ {
		frugal.EncodedSize(iface)
		if iface2 != nil {
			frugal.EncodedSize(iface2)
		}
	}
	runtime.ReadMemStats(&m1)
	for i := 0; i < calls; i++ {
		frugal.EncodeObject(buf, nil, iface)
		if iface2 != nil {
			frugal.EncodeObject(buf2, nil, iface2)
		}
	}
	runtime.ReadMemStats(&m2)
	runtime.KeepAlive(holder)
	runtime.KeepAlive(holder2)
	return head + fmt.Sprintf(`"out":"ok","n":%d,"size_mallocs":%d,"enc_mallocs":%d}`, n0,
		clamp(m1.Mallocs-m0.Mallocs), clamp(m2.Mallocs-m1.Mallocs))
}
