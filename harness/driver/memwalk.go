package main

import (
	"bytes"
	"fmt"
	"reflect"
	"sort"
	"strconv"
	"strings"
	"unsafe"
)

// A region is one piece of memory a decoded object refers to: the target of a pointer, the
// backing array of a slice up to its capacity, the bytes of a non-empty string.
type region struct {
	path   string
	kind   string // ptr | slice | string | binary | holder
	lo, hi uintptr
	align  uintptr
	hasptr bool
	nocopy bool
	length int // len of string / slice
	capa   int
	obj    int
}

func typeHasPointers(rt reflect.Type) bool {
	switch rt.Kind() {
	case reflect.Ptr, reflect.Map, reflect.Slice, reflect.String, reflect.Interface, reflect.Chan, reflect.Func, reflect.UnsafePointer:
		return true
	case reflect.Struct:
		for i := 0; i < rt.NumField(); i++ {
			if typeHasPointers(rt.Field(i).Type) {
				return true
			}
		}
		return false
	case reflect.Array:
		return typeHasPointers(rt.Elem())
	}
	return false
}

type walker struct {
	regs []region
	obj  int
}

func (w *walker) walk(t *TypeD, rv reflect.Value, path string, nocopy bool) {
	if t.Ptr {
		if rv.IsNil() {
			return
		}
		et := rv.Type().Elem()
		w.regs = append(w.regs, region{path: path, kind: "ptr", lo: rv.Pointer(), hi: rv.Pointer() + et.Size(),
			align: uintptr(et.Align()), hasptr: typeHasPointers(et), obj: w.obj})
		w.walkV(t, rv.Elem(), path, nocopy)
		return
	}
	w.walkV(t, rv, path, nocopy)
}

func (w *walker) walkV(t *TypeD, rv reflect.Value, path string, nocopy bool) {
	switch t.K {
	case "string":
		s := rv.String()
		if len(s) > 0 {
			p := uintptr(unsafe.Pointer(unsafe.StringData(s)))
			w.regs = append(w.regs, region{path: path, kind: "string", lo: p, hi: p + uintptr(len(s)), align: 1,
				nocopy: nocopy, length: len(s), capa: len(s), obj: w.obj})
		} else if nocopy {
			w.regs = append(w.regs, region{path: path, kind: "string", lo: uintptr(unsafe.Pointer(unsafe.StringData(s))), hi: uintptr(unsafe.Pointer(unsafe.StringData(s))), align: 1,
				nocopy: true, length: 0, capa: 0, obj: w.obj})
		}
	case "binary":
		if rv.IsNil() {
			return
		}
		{
			// also a zero-capacity slice points somewhere: it must not be into the input
			p := rv.Pointer()
			w.regs = append(w.regs, region{path: path, kind: "binary", lo: p, hi: p + uintptr(rv.Cap()), align: 1,
				nocopy: nocopy, length: rv.Len(), capa: rv.Cap(), obj: w.obj})
		}
	case "list", "set":
		if rv.IsNil() {
			return
		}
		et := rv.Type().Elem()
		if rv.Cap() > 0 {
			p := rv.Pointer()
			w.regs = append(w.regs, region{path: path, kind: "slice", lo: p, hi: p + uintptr(rv.Cap())*et.Size(),
				align: uintptr(et.Align()), hasptr: typeHasPointers(et), length: rv.Len(), capa: rv.Cap(), obj: w.obj})
		}
		for i := 0; i < rv.Len(); i++ {
			w.walk(t.E, rv.Index(i), path+"["+strconv.Itoa(i)+"]", false)
		}
	case "map":
		if rv.IsNil() {
			return
		}
		it := rv.MapRange()
		i := 0
		for it.Next() {
			k := reflect.New(rv.Type().Key()).Elem()
			k.Set(it.Key())
			v := reflect.New(rv.Type().Elem()).Elem()
			v.Set(it.Value())
			w.walk(t.KT, k, path+"{k"+strconv.Itoa(i)+"}", false)
			w.walk(t.VT, v, path+"{v"+strconv.Itoa(i)+"}", false)
			i++
		}
	case "struct":
		d := defs[t.S]
		for _, f := range d.Fields {
			if f.Opaque {
				continue
			}
			w.walk(f.T, rv.Field(f.idx), path+"."+f.Key, f.Nocopy)
		}
		if d.Unk {
			hp := (*[]byte)(unsafe.Add(rv.Addr().UnsafePointer(), d.unkOff))
			if cap(*hp) > 0 {
				p := uintptr(unsafe.Pointer(unsafe.SliceData(*hp)))
				w.regs = append(w.regs, region{path: path + "._unk", kind: "holder", lo: p, hi: p + uintptr(cap(*hp)), align: 1,
					length: len(*hp), capa: cap(*hp), obj: w.obj})
			}
		}
	}
}

// stepWalk records the memory layout of the objects kept by earlier decode steps, relative to
// their input buffers.  Addresses are replaced by ranks of the sorted distinct endpoints.
func (c *stepCtx) stepWalk(st map[string]interface{}) string {
	objs, _ := st["objs"].([]interface{})
	w := &walker{}
	type inp struct{ lo, hi uintptr }
	inputs := map[int]inp{}
	var tys []string
	for _, o := range objs {
		k := int(o.(float64))
		ov, ok := c.objs[k]
		if !ok {
			return fmt.Sprintf(`"ev":"Skipped","why":"no object from step %d"`, k)
		}
		ty := c.objTy[k]
		tys = append(tys, ty)
		w.obj = k
		// the top-level struct itself belongs to the caller: only what it refers to is walked
		w.walkV(structT(ty), ov.Elem(), "", false)
		if in, ok := c.ins[k]; ok && len(in) > 0 {
			p := uintptr(unsafe.Pointer(unsafe.SliceData(in)))
			inputs[k] = inp{p, p + uintptr(len(in))}
		}
	}
	// rank compression
	pts := map[uintptr]bool{}
	for _, r := range w.regs {
		pts[r.lo], pts[r.hi] = true, true
	}
	for _, in := range inputs {
		pts[in.lo], pts[in.hi] = true, true
	}
	var sorted []uintptr
	for p := range pts {
		sorted = append(sorted, p)
	}
	sort.Slice(sorted, func(i, j int) bool { return sorted[i] < sorted[j] })
	rank := map[uintptr]int{}
	for i, p := range sorted {
		rank[p] = i
	}
	sort.SliceStable(w.regs, func(i, j int) bool { return w.regs[i].lo < w.regs[j].lo })
	var b bytes.Buffer
	fmt.Fprintf(&b, `"ev":"Walk","tys":[%s],"obs":{"out":"ok","inputs":[`, quoteList(tys))
	first := true
	for k, in := range inputs {
		if !first {
			b.WriteByte(',')
		}
		first = false
		fmt.Fprintf(&b, `{"obj":%d,"lo":%d,"hi":%d}`, k, rank[in.lo], rank[in.hi])
	}
	b.WriteString(`],"regions":[`)
	for i, r := range w.regs {
		if i > 0 {
			b.WriteByte(',')
		}
		off := -1
		if in, ok := inputs[r.obj]; ok && r.lo >= in.lo && r.lo < in.hi {
			off = int(r.lo - in.lo)
		}
		fmt.Fprintf(&b, `{"obj":%d,"path":%q,"kind":%q,"lo":%d,"hi":%d,"mis":%d,"hasptr":%v,"nocopy":%v,"len":%d,"cap":%d,"off":%d,"keys":[%s]}`,
			r.obj, r.path, r.kind, rank[r.lo], rank[r.hi], r.lo%r.align, r.hasptr, r.nocopy, r.length, r.capa, off, pathKeys(r.path))
	}
	b.WriteString(`]}`)
	return b.String()
}

func quoteList(ss []string) string {
	q := make([]string, len(ss))
	for i, s := range ss {
		q[i] = strconv.Quote(s)
	}
	return strings.Join(q, ",")
}

// pathKeys: ".3.1" -> "3","1" (only struct-field paths; container steps make it empty)
func pathKeys(p string) string {
	if strings.ContainsAny(p, "[{") || p == "" {
		return ""
	}
	parts := strings.Split(strings.TrimPrefix(p, "."), ".")
	return quoteList(parts)
}

// valueDigest: digest of the value with nocopy fields left out (they are views of the input
// and change with it by design)
func valueDigestNoNocopy(name string, ptr reflect.Value) string {
	var w bytes.Buffer
	sortMapEntries = true
	projectMasked(&w, structT(name), ptr.Elem())
	sortMapEntries = false
	return digestBytes(w.Bytes())
}

func projectMasked(w *bytes.Buffer, t *TypeD, rv reflect.Value) {
	if t.K == "struct" && !t.Ptr {
		d := defs[t.S]
		for _, f := range d.Fields {
			if f.Opaque || f.Nocopy {
				continue
			}
			w.WriteString(f.Key)
			w.WriteByte(':')
			if f.T.K == "struct" && !f.T.Ptr {
				projectMasked(w, f.T, rv.Field(f.idx))
			} else if f.T.K == "struct" && f.T.Ptr {
				if rv.Field(f.idx).IsNil() {
					w.WriteString("nil")
				} else {
					projectMasked(w, structT(f.T.S), rv.Field(f.idx).Elem())
				}
			} else {
				project(w, f.T, rv.Field(f.idx), false)
			}
			w.WriteByte(';')
		}
		if d.Unk {
			hp := (*[]byte)(unsafe.Add(rv.Addr().UnsafePointer(), d.unkOff))
			putBytes(w, *hp)
		}
		return
	}
	project(w, t, rv, false)
}
