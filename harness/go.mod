module verifharness

go 1.20

require (
	github.com/apache/thrift v0.13.0
	github.com/cloudwego/frugal v0.0.0
	github.com/cloudwego/gopkg v0.2.0
)

require github.com/bytedance/gopkg v0.1.4 // indirect

replace github.com/cloudwego/frugal => /repo
