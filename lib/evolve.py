"""Writer / reader schema pairs related by adding, removing, retyping and renumbering fields
(the quantifier of C03, C09, C10, C11).  A pair lives in one Defs universe: writer structs
W*, reader structs T*.  Messages are always produced from a writer value by the reference
encoder (spec/MsgGen.tla)."""
import copy

import universe as U
from universe import T, L, SET, M, ST, field, struct


def writers():
    d = {}
    d["WIn"] = struct([field(1, "default", T("i32")), field(2, "optional", T("string", True)),
                       field(3, "default", L(T("i16"))), field(4, "optional", T("double", True)),
                       field(6, "optional", ST("WIn", True))])
    d["WScal"] = struct([field(0, "default", T("i16")), field(1, "default", T("bool")), field(2, "default", T("i8")), field(3, "default", T("i16")),
                         field(4, "default", T("i32")), field(5, "default", T("i64")), field(6, "default", T("double")),
                         field(7, "default", T("enum")), field(8, "default", T("string")), field(9, "default", T("binary")),
                         field(10, "optional", T("i32", True)), field(11, "optional", T("string", True))])
    d["WCont"] = struct([field(0, "default", L(T("i32"))), field(1, "default", L(T("i32"))), field(2, "default", SET(T("string"))),
                         field(3, "default", M(T("i32"), T("string"))), field(4, "default", L(ST("WIn", True))),
                         field(5, "default", M(T("string"), ST("WIn", True))), field(6, "optional", ST("WIn", True)),
                         field(7, "default", ST("WIn", False)), field(8, "default", L(L(T("i64")))),
                         field(9, "default", M(T("i16"), L(T("string")))), field(10, "optional", M(ST("WIn", True), T("i8"))),
                         field(11, "default", L(ST("WIn", False))), field(12, "default", M(T("string"), ST("WIn", False))),
                         field(13, "default", M(T("i32"), T("enum"))), field(14, "default", M(T("enum"), T("enum"))),
                         field(15, "default", L(T("enum"))), field(16, "default", SET(ST("WSetOnly", True))),
                         field(17, "optional", M(T("string"), SET(ST("WSetOnly2", False))))])
    # struct types reachable only as set elements
    d["WSetOnly"] = struct([field(1, "default", T("i32")), field(2, "optional", T("string", True))])
    d["WSetOnly2"] = struct([field(1, "default", T("i64")), field(2, "default", T("string"))])
    # every field an optional container: with all others nil, a field is the only (hence last) thing in the message
    d["WOpt"] = struct([field(1, "optional", L(L(T("i64")))), field(2, "optional", M(T("i16"), L(T("string")))),
                        field(3, "optional", SET(L(T("binary")))), field(4, "optional", L(M(T("i32"), T("i32")))),
                        field(5, "optional", M(T("string"), M(T("i32"), T("string")))), field(6, "optional", L(T("string"))),
                        field(7, "optional", L(T("binary"))), field(8, "optional", M(T("string"), T("string"))),
                        field(9, "optional", L(ST("WIn", True))), field(10, "optional", M(T("string"), SET(T("i8"))))])
    # by-value elements whose reader keeps only fixed-size fields plus the holder
    d["WFx"] = struct([field(1, "default", T("i32")), field(2, "default", T("i64")), field(3, "default", T("string")), field(4, "default", T("i16"))])
    d["WFxC"] = struct([field(1, "default", L(ST("WFx", False))), field(2, "default", M(T("string"), ST("WFx", False))),
                        field(3, "default", ST("WFx", False)), field(4, "default", SET(ST("WFx", False))), field(5, "default", M(T("i32"), ST("WFx", True)))])
    # many small fields: readers that know every other one see many separate runs of unknown fields
    d["WRuns"] = struct([field(i, "default", T("i32") if i % 4 else T("string")) for i in range(1, 13)])
    d["WOuter"] = struct([field(1, "default", ST("WFxC", True)), field(2, "optional", ST("WIn", True)), field(3, "default", L(ST("WFxC", True))),
                          field(4, "default", M(T("string"), ST("WFxC", True)))])
    # a wide struct: more fields than fit a small position index
    d["WWide"] = struct([field(3 * i + 1, "default", T("i32") if i % 5 else T("string")) for i in range(300)])
    return d


ALT_TYPES = [T("string"), T("i64"), T("i32"), T("enum"), T("binary"), T("bool"), T("double"), L(T("i32")), SET(T("i32")),
             M(T("i32"), T("i32")), L(T("string"))]


def same_wire(a, b):
    wt = {"bool": 2, "i8": 3, "double": 4, "i16": 6, "i32": 8, "enum": 8, "i64": 10, "string": 11, "binary": 11,
          "struct": 12, "map": 13, "set": 14, "list": 15}
    return wt[a["k"]] == wt[b["k"]]


def retarget(t, mapping):
    """replace struct references according to mapping (writer name -> reader name)"""
    t = copy.deepcopy(t)

    def go(x):
        if x["k"] == "struct" and x["s"] in mapping:
            x["s"] = mapping[x["s"]]
        for kk in ("e", "kt", "vt"):
            if kk in x:
                go(x[kk])
    go(t)
    return t


class Pairs:
    """collects reader structs; pairs = list of (writer, reader, label)"""

    def __init__(self):
        self.defs = writers()
        self.pairs = []
        self.n = 0

    def reader(self, wname, fields, label, unk=False, init=False, mapping=None):
        self.n += 1
        name = "T%d" % self.n
        mp = dict(mapping or {})
        ff = []
        for f in fields:
            f2 = copy.deepcopy(f)
            f2["t"] = retarget(f2["t"], mp)
            ff.append(f2)
        self.defs[name] = struct(ff, init=init, unk=unk)
        # the same schema however the Go struct is laid out: declaration order, position of the holder
        if self.n % 3:
            self.defs[name]["decl"] = [None, "rev", "shuf"][self.n % 3]
        if unk:
            self.defs[name]["unk_pos"] = ["last", "first", "middle"][(self.n // 3) % 3]
        self.pairs.append((wname, name, label))
        return name

    def finish(self):
        U.with_defaults(self.defs)
        return self.defs, self.pairs


def build_pairs(rng, quick=True):
    P = Pairs()
    W = P.defs
    # inner readers first (used by container readers)
    win = W["WIn"]["fields"]
    tin_same = P.reader("WIn", win, "in-same")
    tin_unk = P.reader("WIn", win[:1] + win[2:], "in-drop2-holder", unk=True)
    tin_drop = P.reader("WIn", [win[0], win[2]], "in-drop-noholder")
    f = copy.deepcopy(win); f[1]["req"] = "required"; f[1]["t"] = T("string")
    tin_req = P.reader("WIn", f, "in-required2")
    f = copy.deepcopy(win); f[0]["def"] = [0, 0, 0, 77]
    tin_init = P.reader("WIn", f, "in-init", init=True)
    P.defs[tin_init]["fields"][1]["def"] = {"p": 0}
    wfx = W["WFx"]["fields"]
    tfx_u = P.reader("WFx", wfx[:2], "fx-fixed-holder", unk=True)
    tfx_n = P.reader("WFx", wfx[:2], "fx-fixed-noholder")
    fxc_readers = []
    for mp in ({"WFx": tfx_u}, {"WFx": tfx_n}):
        fxc_readers.append(P.reader("WFxC", W["WFxC"]["fields"], "fxc/" + mp["WFx"], unk=True, mapping=mp))
    # three levels: an outer type nesting (by pointer) mid-level readers that nest leaf readers
    P.reader("WOuter", W["WOuter"]["fields"], "outer-same", mapping={"WFxC": fxc_readers[0], "WIn": tin_same})
    P.reader("WOuter", W["WOuter"]["fields"], "outer-same-holder", unk=True, mapping={"WFxC": fxc_readers[1], "WIn": tin_unk})
    # runs of unknown fields separated by known ones (holder readers): fixed patterns plus random subsets
    wr = W["WRuns"]["fields"]
    masks = [{2, 4}, {2, 4, 6, 8, 10}, {3, 6, 9}, {1, 5, 9}, {2, 3, 6, 7}, {4}, {5, 6}, {1, 12}, {2, 5, 11}, {1, 3, 5, 7, 9, 11}]
    for _ in range(4 if quick else 24):
        masks.append({i for i in range(1, 13) if rng.random() < 0.4})
    for k, mk in enumerate(masks):
        P.reader("WRuns", [x for x in wr if x["id"] in mk], "runs-" + "_".join(map(str, sorted(mk))), unk=True)
    ww = W["WWide"]["fields"]
    P.reader("WWide", ww, "wide-same")
    P.reader("WWide", ww, "wide-same-holder", unk=True)
    P.reader("WWide", ww[100:], "wide-tail", unk=True)
    P.reader("WWide", [x for j, x in enumerate(ww) if j % 2], "wide-odd")
    P.reader("WWide", ww[:120] + ww[140:260] + ww[299:], "wide-gaps", unk=True)
    for wname in ("WScal", "WCont", "WOpt"):
        wf = W[wname]["fields"]
        inner_maps = [{"WIn": tin_same}] if wname != "WCont" else [
            {"WIn": tin_same}, {"WIn": tin_unk}, {"WIn": tin_drop}, {"WIn": tin_req}, {"WIn": tin_init}]
        for mp in inner_maps:
            tag = mp["WIn"]
            P.reader(wname, wf, "same/" + tag, mapping=mp)
            P.reader(wname, wf, "same-holder/" + tag, unk=True, mapping=mp)
        mp = inner_maps[0]
        # drop each field, with and without holder
        for i in range(len(wf)):
            P.reader(wname, wf[:i] + wf[i + 1:], "drop%d" % wf[i]["id"], unk=(i % 2 == 0), mapping=mp)
        # keep a single field only
        for i in range(0, len(wf), 3):
            P.reader(wname, [wf[i]], "only%d" % wf[i]["id"], unk=True, mapping=mp)
        # retype fields
        for i in range(len(wf)):
            alts = [a for a in ALT_TYPES if a != wf[i]["t"]]
            rng.shuffle(alts)
            for a in alts[: (2 if quick else 5)]:
                f = copy.deepcopy(wf)
                f[i]["t"] = copy.deepcopy(a)
                if f[i]["req"] == "optional" and a["k"] in U.SCALARS:
                    f[i]["t"]["ptr"] = True
                P.reader(wname, f, "retype%d-%s" % (wf[i]["id"], U.type_sig(a)), unk=(i % 2 == 1), mapping=mp)
        # list <-> set with the same element type: different wire types, the field is not the reader's
        for i in range(len(wf)):
            if wf[i]["t"]["k"] in ("list", "set"):
                f = copy.deepcopy(wf)
                f[i]["t"]["k"] = "set" if wf[i]["t"]["k"] == "list" else "list"
                P.reader(wname, f, "listset%d" % wf[i]["id"], unk=(i % 2 == 0), mapping=mp)
        # renumber
        for i in range(0, len(wf), 2):
            f = copy.deepcopy(wf)
            newid = [200, 255, 256, 1024, 32768, 65535][i % 6]
            f[i]["id"] = newid
            f[i]["key"] = str(newid)
            f[i]["name"] = list(("F%d" % newid).encode())
            P.reader(wname, f, "renum%d->%d" % (wf[i]["id"], newid), unk=(i % 4 == 0), mapping=mp)
        # swap the ids of two fields of different wire types
        f = copy.deepcopy(wf)
        a, b = 0, len(f) - 1
        for x, y in ((a, b), (b, a)):
            pass
        ida, idb = f[a]["id"], f[b]["id"]
        f[a]["id"], f[a]["key"], f[a]["name"] = idb, str(idb), list(("F%d" % idb).encode())
        f[b]["id"], f[b]["key"], f[b]["name"] = ida, str(ida), list(("F%d" % ida).encode())
        P.reader(wname, f, "swapids", unk=True, mapping=mp)
        # added fields (reader is newer): optional pointer, default, with declared defaults, required
        extra = [field(100, "optional", T("i64", True)), field(101, "default", T("string")),
                 field(102, "default", L(T("i32"))), field(65535, "optional", ST(tin_same, True))]
        P.reader(wname, wf + extra, "added", mapping=mp)
        e2 = copy.deepcopy(extra)
        e2[1]["def"] = list(b"hello")
        P.reader(wname, wf + e2, "added-init", init=True, mapping=mp)
        P.reader(wname, wf + [field(300, "required", T("i32"))], "added-required", mapping=mp)
        # requiredness changed on existing fields
        f = copy.deepcopy(wf)
        for x in f:
            if not x["t"].get("ptr") or x["t"]["k"] == "struct":
                x["req"] = "required"
        P.reader(wname, f, "all-required", mapping=mp)
        # the same with every string / binary field also declared nocopy (required x nocopy)
        f = copy.deepcopy(f)
        for x in f:
            if x["t"]["k"] in ("string", "binary"):
                x["nocopy"] = True
        P.reader(wname, f, "all-required-nocopy", mapping=mp)
    return P.finish()


# ---- required-field universes (C09) -----------------------------------------------------------
BOUNDARY_IDS = [0, 1, 31, 32, 63, 64, 65, 127, 128, 255, 256, 1023, 1024, 32767, 32768, 65535]


MORE_IDS = sorted(set([0, 1, 2, 65534, 65535] + [x for k in range(5, 16) for x in ((1 << k) - 1, 1 << k, (1 << k) + 1)]))


def required_universe(ids=BOUNDARY_IDS):
    """writer with an optional pointer field at every boundary id; one reader per id that
    declares exactly that id required"""
    defs = {}
    defs["WIds"] = struct([field(i, "optional", T("i32", True)) for i in ids])
    pairs = []
    for b in ids:
        name = "TReq%d" % b
        defs[name] = struct([field(i, "required" if i == b else "default", T("i32")) for i in ids])
        pairs.append(("WIds", name, "req%d" % b))
    # every field required
    defs["TReqAll"] = struct([field(i, "required", T("i32")) for i in ids])
    pairs.append(("WIds", "TReqAll", "reqall"))
    # wrong wire type must not count as present
    defs["TReqStr"] = struct([field(i, "required" if i in (64, 65535) else "default", T("string") if i in (64, 65535) else T("i32")) for i in ids])
    pairs.append(("WIds", "TReqStr", "reqwrongtype"))
    for j, b in enumerate(ids):
        if j % 3:
            defs["TReq%d" % b]["decl"] = [None, "rev", "shuf"][j % 3]
        if j % 2:
            defs["TReq%d" % b]["fields"][0]["before"] = ["Untagged0 int32", "hidden0 string"]
    defs["TReqAll"]["decl"] = "shuf"
    defs["TReqAll"]["fields"][3]["before"] = ["Untagged1 []string"]
    # a required container that arrives with the other container's wire type is missing
    defs["WLs"] = struct([field(1, "default", SET(T("i32"))), field(2, "default", L(T("string"))), field(3, "default", T("i32"))])
    defs["TLsR"] = struct([field(1, "required", L(T("i32"))), field(2, "required", SET(T("string"))), field(3, "required", T("i32"))])
    defs["TLsR"]["decl"] = "rev"
    pairs.append(("WLs", "TLsR", "listset-required"))
    # a reader declared with thrift tags only (the error must still name the field)
    defs["TThr"] = struct([field(1, "required", T("i32")), field(64, "required", T("string")), field(65, "default", T("i16"))])
    for f in defs["TThr"]["fields"]:
        f["ttag"] = "wire%d,%d,%s" % (f["id"], f["id"], f["req"])
    pairs.append(("WLeaf", "TThr", "thrift-tags-only"))
    # required fields at nested positions
    defs["WLeaf"] = struct([field(1, "optional", T("i32", True)), field(64, "optional", T("string", True))])
    defs["TLeafR"] = struct([field(1, "required", T("i32")), field(64, "required", T("string"))])
    defs["WNest"] = struct([field(1, "default", L(ST("WLeaf", True))), field(2, "default", M(T("string"), ST("WLeaf", True))),
                            field(3, "optional", ST("WLeaf", True)), field(4, "default", ST("WLeaf", False)),
                            field(5, "optional", M(ST("WLeaf", True), T("i32"))), field(6, "optional", T("i32", True))])
    defs["TNestR"] = struct([field(1, "default", L(ST("TLeafR", True))), field(2, "default", M(T("string"), ST("TLeafR", True))),
                             field(3, "optional", ST("TLeafR", True)), field(4, "default", ST("TLeafR", False)),
                             field(5, "optional", M(ST("TLeafR", True), T("i32"))), field(6, "required", T("i32"))])
    pairs.append(("WNest", "TNestR", "nested"))
    # the outer struct lacks required id 1 / 64 while its children carry fields with those very ids
    defs["WOut"] = struct([field(1, "optional", T("i32", True)), field(64, "optional", T("string", True)),
                           field(2, "default", L(ST("WLeaf", True))), field(3, "optional", ST("WLeaf", True)),
                           field(4, "default", M(T("string"), ST("WLeaf", True)))])
    defs["TOutR"] = struct([field(1, "required", T("i32")), field(64, "required", T("string")),
                            field(2, "default", L(ST("TLeafR", True))), field(3, "optional", ST("TLeafR", True)),
                            field(4, "default", M(T("string"), ST("TLeafR", True)))])
    pairs.append(("WOut", "TOutR", "outer-vs-child-ids"))
    # required fields declared nocopy
    defs["WNc"] = struct([field(1, "optional", T("string", True)), field(2, "optional", T("binary")), field(3, "optional", T("i32", True))])
    defs["TNcR"] = struct([field(1, "required", T("string"), nocopy=True), field(2, "required", T("binary"), nocopy=True), field(3, "default", T("i32"))])
    pairs.append(("WNc", "TNcR", "required-nocopy"))
    # required fields of a type that also declares defaults (generated code has InitDefault on every struct)
    defs["WRi"] = struct([field(1, "optional", T("i32", True)), field(2, "optional", T("string", True)), field(3, "optional", T("i64", True))])
    ri = struct([field(1, "required", T("i32")), field(2, "required", T("string")), field(3, "optional", T("i64"))], init=True)
    ri["fields"][0]["def"] = [0, 0, 0, 5]
    ri["fields"][2]["def"] = [0] * 7 + [9]
    defs["TRi"] = ri
    defs["WRiN"] = struct([field(1, "default", L(ST("WRi", True))), field(2, "optional", ST("WRi", True))])
    defs["TRiN"] = struct([field(1, "default", L(ST("TRi", True))), field(2, "optional", ST("TRi", True))])
    pairs.append(("WRi", "TRi", "required-init"))
    pairs.append(("WRiN", "TRiN", "required-init-nested"))
    return U.with_defaults(defs), pairs
