"""C12: the wire schema is exactly what the struct tags say.

Canonical field schemas (ids, requiredness, annotations nested to depth 3) are spelled in every
equivalent way the property lists; each spelling becomes its own Go struct type.  (1) TLC
model-checks spec/TagLang.tla on the universe (TagMC: every spelling derives the canonical
schema; RejectCorrect on the invalid classes of C13).  (2) The real code is bound by
behaviour: sizes, bytes and decodes of every spelled type are judged against the canonical
schema by the trace specification."""
import copy
import json
import os
import random

import universe as U
import shapes
import suite
import vlib
import checks_codec
from suite import Batch
from universe import T, L, SET, M, ST, field, struct

ASSUME = [
    "spec/TagLang.tla is the specification of the definition language; TLC checks that every generated spelling derives the canonical schema (TagEquiv) before the real code is run",
    "the Go type of a field is the canonical one for its schema type (typegen); only the tags and the surrounding members vary",
]
RULE = ("canonical field definitions (all scalar kinds, enum, binary, list/set/map nested to annotation depth 3, pointer and by-value structs, every requiredness, "
        "ids incl. 0 and 65535) x equivalent spellings (frugal vs thrift carrier, omitted redundant annotations, byte vs i8, spaces around every token, "
        "package-qualified and `struct` keyword for struct names, omitted requiredness, leading zeros, both tags present, untagged / unexported / embedded members "
        "interleaved); distinct = distinct (definition, spelling)")


def canonical_fields(rng, quick):
    """list of (label, field-without-id)"""
    kinds = ["bool", "i8", "i16", "i32", "i64", "double", "enum", "string", "binary"]
    out = []
    for k in kinds:
        out.append((k, "default", T(k)))
    # typedefs: a named scalar annotated with its own name keeps its kind (only 64-bit integers become enums);
    # a named int64 annotated with the keyword i64 is a plain i64
    for k, g in (("i32", "MyI32"), ("string", "MyStr"), ("bool", "MyBool"), ("double", "MyF64"), ("i8", "MyI8")):
        out.append(("typedef-" + k, "default", dict(T(k), gotype=g, ann=g)))
        out.append(("typedef-kw-" + k, "default", dict(T(k), gotype=g)))
    out.append(("typedef-i64-kw", "default", dict(T("i64"), gotype="MyI64", ann="i64")))
    out.append(("typedef-i64-own", "default", dict(T("enum"), gotype="MyI64", ann="MyI64")))
    out.append(("list-typedef-i32", "default", L(dict(T("i32"), gotype="MyI32", ann="MyI32"))))
    out.append(("map-typedef", "default", M(dict(T("string"), gotype="MyStr", ann="MyStr"), dict(T("enum"), gotype="MyI64", ann="MyI64"))))
    # enums behind pointers (sign extension of negative values on decode)
    out.append(("opt-enum", "optional", T("enum", True)))
    out.append(("opt-typedef-enum", "optional", dict(T("enum", True), gotype="*MyI64", ann="MyI64")))
    # identifiers with underscores: struct, typedef, enum
    out.append(("struct-underscore", "default", ST("Leaf_u", True)))
    out.append(("list-struct-underscore", "default", L(ST("Leaf_u", True))))
    out.append(("map-struct-underscore", "default", M(T("string"), ST("Leaf_u", True))))
    out.append(("typedef-underscore", "default", dict(T("string"), gotype="My_Str", ann="My_Str")))
    out.append(("enum-underscore", "default", dict(T("enum"), gotype="My_Enum", ann="My_Enum")))
    out.append(("list-enum-underscore", "default", L(dict(T("enum"), gotype="My_Enum", ann="My_Enum"))))
    # Go's int kind: a named int under its own name is an enum, plain int (or a named int under the keyword) an i64
    out.append(("enum-int-kind", "default", dict(T("enum"), gotype="EnumI", ann="EnumI")))
    out.append(("list-enum-int-kind", "default", L(dict(T("enum"), gotype="EnumI", ann="EnumI"))))
    out.append(("map-enum-int-kind", "default", M(dict(T("enum"), gotype="EnumI", ann="EnumI"), T("string"))))
    out.append(("plain-int", "default", dict(T("i64"), gotype="int", ann="i64")))
    out.append(("typedef-int-kw", "default", dict(T("i64"), gotype="MyInt", ann="i64")))
    # a struct type reachable through a set only; double keys
    out.append(("set-pstruct-only", "default", SET(ST("LeafSetOnly", True))))
    out.append(("map-double-string", "default", M(T("double"), T("string"))))
    out.append(("map-double-pstruct", "optional", M(T("double"), ST("Leaf", True))))
    out.append(("opt-i32", "optional", T("i32", True)))
    out.append(("opt-string", "optional", T("string", True)))
    out.append(("req-i64", "required", T("i64")))
    out.append(("req-string", "required", T("string")))
    out.append(("opt-binary", "optional", T("binary")))
    # the nocopy option after every spelling of the annotation (incl. the omitted one: "N,req,,nocopy")
    out.append(("string-nocopy", "default", T("string")))
    out.append(("binary-nocopy", "required", T("binary")))
    out.append(("opt-string-nocopy", "optional", T("string", True)))
    out.append(("typedef-string-nocopy", "default", dict(T("string"), gotype="MyStr", ann="MyStr")))
    out.append(("pstruct", "default", ST("Leaf", True)))
    out.append(("opt-pstruct", "optional", ST("Leaf", True)))
    out.append(("vstruct", "default", ST("Leaf", False)))
    out.append(("list-i32", "default", L(T("i32"))))
    out.append(("set-i32", "default", SET(T("i32"))))
    out.append(("list-i8", "default", L(T("i8"))))
    out.append(("set-string", "optional", SET(T("string"))))
    out.append(("list-enum", "default", L(T("enum"))))
    out.append(("list-binary", "default", L(T("binary"))))
    out.append(("list-pstruct", "default", L(ST("Leaf", True))))
    out.append(("map-str-i32", "default", M(T("string"), T("i32"))))
    out.append(("map-i8-bool", "default", M(T("i8"), T("bool"))))
    out.append(("map-enum-double", "default", M(T("enum"), T("double"))))
    out.append(("map-str-list-set-enum", "default", M(T("string"), L(SET(T("enum"))))))
    out.append(("list-map-i32-list-str", "default", L(M(T("i32"), L(T("string"))))))
    out.append(("map-pstruct-set-i64", "optional", M(ST("Leaf", True), SET(T("i64")))))
    out.append(("set-list-list-i8", "default", SET(L(L(T("i8"))))))
    out.append(("map-i64-map-str-pstruct", "default", M(T("i64"), M(T("string"), ST("Leaf", True)))))
    return out


def annot_variants(t, rng):
    """equivalent spellings of the annotation of type t -> list of (label, text or None=omitted)"""
    base = shapes.typegen.annot(t)
    out = [("canon", base)]
    # spaces around every token
    spaced = ""
    for ch in base:
        spaced += (" %s " % ch) if ch in "<>:" else ch
    out.append(("spaces", " " + spaced + "\t"))
    if "i8" in base:
        out.append(("byte", base.replace("i8", "byte")))
    if "Leaf" in base:
        out.append(("qualified", base.replace("Leaf", "pkg.Leaf")))
        out.append(("qualified-sp", base.replace("Leaf", "base . Leaf")))
    if "Leaf_u" in base:
        out.append(("qualified-underscore", base.replace("Leaf_u", "my_pkg.Leaf_u")))
    for nm in ("Enum", "MyI64", "MyI32", "MyStr", "MyBool", "MyF64", "MyI8", "My_Str", "My_Enum", "EnumI"):
        # package-qualified enum / typedef names
        import re
        if re.search(r"\b%s\b" % nm, base):
            out.append(("qualified-" + nm, re.sub(r"\b%s\b" % nm, "pkg." + nm, base)))
    if t["k"] == "struct":
        out.append(("kw-struct", "struct"))
    if omittable(t):
        out.append(("omitted", None))
    return out


def omittable(t):
    """the annotation can be left out when the Go type alone determines the schema type"""
    k = t["k"]
    if "ann" in t and t["ann"] != "i64":
        return t["k"] != "enum"      # a typedef keeps its kind without annotation, except the enum reading of a named int64
    if t.get("gotype") == "MyI64":
        return True
    if k in ("bool", "i8", "i16", "i32", "i64", "double", "string", "binary", "struct"):
        return True
    if k == "map":
        return omittable(t["kt"]) and omittable(t["vt"])
    return False        # list vs set, enum vs i64 need the annotation


def spell(fid, req, t, label, rng):
    """-> list of (spelling label, field dict with ftag/ttag)"""
    out = []
    nocopy = label.endswith("-nocopy")
    for al, ann in annot_variants(t, rng):
        def mk(ftag=None, ttag=None, sl=""):
            f = field(fid, req, copy.deepcopy(t), nocopy=nocopy)
            if ftag is not None:
                f["ftag"] = ftag
            if ttag is not None:
                f["ttag"] = ttag
            return (al + sl, f)
        parts = [str(fid), req] + ([ann] if ann is not None else [])
        if nocopy:
            parts = [str(fid), req, ann if ann is not None else "", "nocopy"]
        out.append(mk(ftag=",".join(parts)))
        out.append(mk(ttag=",".join(["wireName"] + parts), sl="+thrift"))
        out.append(mk(ftag=" , ".join(parts) + " ", sl="+commasp"))
        out.append(mk(ttag=" , ".join(["wireName"] + parts) + " ", sl="+thrift-commasp"))
        if al == "canon":
            out.append(mk(ftag=",".join(parts), ttag="other,%d,required,string" % ((fid + 7) % 65536), sl="+both"))
            out.append(mk(ftag=",".join(["00" + str(fid)] + parts[1:]), sl="+zeros"))
            if req == "default" and ann is None:
                pass
        if req == "default" and ann is None and not nocopy:
            out.append(mk(ftag=str(fid), sl="+idonly"))
            out.append(mk(ttag="n,%d" % fid, sl="+thrift-idonly"))
    return out


EXTRA_MEMBERS = ["Untagged int32", "unexported int32 `frugal:\"900,default,i32\"`", "Leaf",
                 "AlsoUntagged map[string][]string", "hidden []int32",
                 "Fix `frugal:\"901,default,Fix\"`",                  # tagged but embedded: ignored
                 "*LeafReq `thrift:\"emb,902,optional\"`",            # tagged embedded pointer: ignored
                 "lower string `thrift:\"lower,903,required\"`"]      # tagged but unexported: ignored


def build_universe(rng, quick):
    defs = U.leaf_structs()
    defs["Leaf_u"] = struct([field(1, "default", T("i32")), field(2, "optional", T("string", True))])
    defs["LeafSetOnly"] = struct([field(1, "default", T("i32")), field(2, "default", T("string"))])
    entries = {}     # struct name -> canonical sorted fields
    cf = canonical_fields(rng, quick)
    n = 0
    ids = [1, 2, 0, 255, 256, 65535, 32767, 7]
    for ci, (label, req, t) in enumerate(cf):
        fid = ids[ci % len(ids)]
        for (sl, f) in spell(fid, req, t, label, rng):
            n += 1
            name = "Tg%d" % n
            # a second, plainly spelled field keeps every struct non-trivial
            other = field(9, "default", T("i16"))
            members = [f, other] if n % 2 else [other, f]
            d = struct(members)
            if n % 3 == 0:
                members[0]["before"] = [EXTRA_MEMBERS[n % len(EXTRA_MEMBERS)]]
                d["after"] = [EXTRA_MEMBERS[(n + 2) % len(EXTRA_MEMBERS)]]
            d["spelling"] = "%s/%s" % (label, sl)
            defs[name] = d
            entries[name] = d
    return U.with_defaults(defs), entries


def plain(t):
    """the schema type without generator-only keys"""
    out = {k: v for k, v in t.items() if k not in ("gotype", "ann")}
    for kk in ("e", "kt", "vt"):
        if kk in out:
            out[kk] = plain(out[kk])
    return out


def tagmc(work, res, defs, entries, invalid_defs):
    """model-check TagLang on the universe"""
    shp = {}
    for name, d in entries.items():
        canon = sorted([{"id": f["id"], "req": f["req"], "t": plain(f["t"]), "nocopy": f.get("nocopy", False)} for f in d["fields"]],
                       key=lambda x: x["id"])
        shp[name] = {"shape": shapes.shape_of_struct(d), "expect_ok": True, "canon": canon}
    for name, d in invalid_defs.items():
        shp[name] = {"shape": shapes.shape_of_struct(d), "expect_ok": bool(d.get("tag_ok", False)), "canon": []}
    dd = work.sub("tagmc")
    sp = os.path.join(dd, "shapes.json")
    json.dump(shp, open(sp, "w"))
    out, st = vlib.tlc(dd, "TagMC", "INIT Init\nNEXT Next\nINVARIANT RejectCorrect\nINVARIANT TagEquiv\nCHECK_DEADLOCK FALSE\n",
                       env={"VERIF_SHAPES": sp}, workers=1, timeout=1200, heap="4g")
    ok = st.get("exit") == 0 and "No error has been found" in out
    if not ok:
        keep = os.path.join(vlib.VERIF, "work", "last-tagmc-failure.txt")
        open(keep, "w").write(out[-30000:])
        raise vlib.MachineryError("TagMC: the generator and spec/TagLang.tla disagree on a definition (or TLC failed); see %s\n%s" % (keep, out[-2500:]))
    res.tlc_states += st.get("distinct", 0)
    res.tlc_transitions += st.get("generated", 0)
    res.extra["tagmc_definitions_checked"] = len(shp)
    return st


def run(prop, tier, seed, work):
    import checks_reject
    res = suite.Result(prop, tier, seed)
    rng = random.Random(seed * 8191 + 1)
    quick = tier == "quick"
    defs, entries = build_universe(rng, quick)
    # the invalid classes of C13 whose rejection is decided by the tag language alone
    inv_defs, plan = checks_reject.invalid_universe(rng, copies=1)
    invalid = {n: d for n, d in inv_defs.items() if d.get("invalid") and n.startswith("Bad") and "_" in n and n.count("_") == 1}
    tagmc(work, res, defs, entries, invalid)
    scen = []
    for name, d in entries.items():
        vs = list(U.struct_variants(name, defs, [0, 1, 3], [0, 1, 4]))
        rng.shuffle(vs)
        for (lbl, v) in vs[: (3 if quick else 30)]:
            sid = "C12-%s-%s" % (name, lbl)
            tags = checks_codec.struct_tags(name, v, defs) + [d["spelling"]]
            steps = [{"op": "size", "ty": name, "v": 0},
                     {"op": "encode", "ty": name, "v": 0, "buf": {"mode": "rel", "n": 0, "extra": 0}},
                     {"op": "decode", "ty": name, "from": 1, "dest": "fresh", "orig": 0}]
            if any(f.get("nocopy") for f in d["fields"]):
                # the option must take effect however the annotation before it is spelled: the field views the input
                steps += [{"op": "walk", "objs": [2]}, {"op": "overwrite", "obj": 2, "byte": 255}, {"op": "recheck", "obj": 2, "after": "overwrite"}]
            scen.append({"sid": sid, "prop": prop, "vals": [v], "steps": steps, "tags": tags, "dkey": sid})
    suite.run_batches(res, work, [Batch("spellings", defs, scen)])
    return suite.finish(res, RULE, ASSUME)
