"""C01 C02 C04 C16: the codec family.  All four run (type, value) cases from the same
universes through the real entry points; they differ in the steps of a scenario and in the
clauses of spec/Api.tla they report."""
import random

import universe as U
import suite
from suite import Batch


# ---- tags: shapes/inputs that known-finding signatures refer to ---------------------------
def has_required(s, defs):
    return any(f["req"] == "required" for f in defs[s]["fields"])


def value_tags(t, v, defs, optional_field=False, out=None):
    """walks value v of type t and collects tags describing specific input classes"""
    if out is None:
        out = set()
    if t.get("ptr"):
        if v["p"] == 0:
            if t["k"] == "struct" and not optional_field and has_required(t["s"], defs):
                out.add("nil_struct_with_required_fields")
            return out
        return value_tags(dict(t, ptr=False), v["v"], defs, False, out)
    k = t["k"]
    if k in ("list", "set"):
        for it in v["items"]:
            value_tags(t["e"], it, defs, False, out)
    elif k == "map":
        for kv in v["ents"]:
            value_tags(t["kt"], kv[0], defs, False, out)
            value_tags(t["vt"], kv[1], defs, False, out)
    elif k == "struct":
        for f in defs[t["s"]]["fields"]:
            value_tags(f["t"], v["f"][f["key"]], defs, f["req"] == "optional", out)
    return out


def struct_tags(s, v, defs):
    return sorted(value_tags({"k": "struct", "ptr": False, "s": s}, v, defs))


# ---- step profiles ---------------------------------------------------------------------------
def steps_for(prop, s, small):
    enc = lambda byval=False, n=0, extra=0: {"op": "encode", "ty": s, "v": 0, "byval": byval,
                                             "buf": {"mode": "rel", "n": n, "extra": extra}}
    size = lambda byval=False: {"op": "size", "ty": s, "v": 0, "byval": byval}
    dec = lambda frm: {"op": "decode", "ty": s, "from": frm, "dest": "fresh", "orig": 0}
    if prop == "C01":
        return [enc(), dec(0), enc(True), dec(2)]
    if prop == "C02":
        return [enc(), enc(True, 0, 5)]
    if prop == "C04":
        st = [size(), size(True), enc(False, 0, 0), enc(True, 0, 0), enc(False, -1, 0), enc(False, -1, 16),
              enc(True, -2, 7), enc(False, 3, 0), enc(False, -1000000, 4)]
        if small:
            st.append({"op": "encsweep", "ty": s, "v": 0, "byval": False, "max": 64, "extra": 8})
        return st
    if prop == "C16":
        return [size(), size(True), enc(False, 0, 32), enc(True, 0, 32), enc(False, 40, 0), enc(False, 0, 32),
                dec(2)]
    raise ValueError(prop)


RULES = {
    "C01": "one scenario per (struct type, value): encode by pointer and by value, decode frugal's own bytes into a fresh default-initialised destination; distinct = distinct (type, value) pairs; all are non-trivial (base value plus one boundary substitution in one field)",
    "C02": "one scenario per (struct type, value): the bytes of EncodeObject (by pointer, by value) are strictly parsed under the schema, re-encoded by the reference encoder and compared as a tree with maps as bags; distinct = distinct (type, value) pairs",
    "C04": "one scenario per (struct type, value): EncodedSize by pointer/by value, EncodeObject with exact, short (with and without spare capacity), long and empty buffers, every buffer length 0..size+1 for messages <= 64 bytes; distinct = distinct (type, value) pairs",
    "C16": "one scenario per (struct type, value): deep snapshot digests of the argument before/after EncodedSize and EncodeObject (pointer and by value), dirty range of the whole backing array of the buffer, input digest around DecodeObject; distinct = distinct (type, value) pairs",
}

ASSUME = [
    "the TLA+ reference semantics (spec/Codec.tla) is the oracle; its own consistency (RoundTrip, SizeIsLen, ParseEnc) is model-checked separately (spec/CodecMC.tla)",
    "harness projection Go value <-> abstract value (harness/driver/project.go) is trusted; scalars are moved bit-exactly",
    "TLC and the CommunityModules Json module are trusted",
]


def cases_for(prop, defs, structs, tier, rng, sizes, strlens, salts=(0,)):
    scen = []
    for s in structs:
        for salt in salts:
            for label, v in U.struct_variants(s, defs, sizes, strlens, salt):
                small = True
                sid = "%s-%s-%s-%d" % (prop, s, label, salt)
                scen.append({"sid": sid, "prop": prop, "vals": [v], "steps": steps_for(prop, s, small),
                             "tags": struct_tags(s, v, defs), "dkey": sid})
    return scen


def with_rejected_interludes(prop, defs, scen):
    """a rejected type that nests the same leaf types as the accepted ones (at lower ids than its unsupported
    part) is tried in the middle of the run; afterwards the base case of every accepted type is run again"""
    bad = {"id": 2, "key": "2", "req": "default", "t": {"k": "i32", "ptr": False, "gotype": "uint32"}, "nocopy": False,
           "name": list(b"F2"), "rawtag": 'frugal:"2,default"', "opaque": True}
    defs["ZBadInner"] = U.struct([U.field(1, "default", U.T("i32")), bad])
    defs["ZBadShare"] = U.struct([U.field(0, "optional", U.ST("Leaf", True)), U.field(1, "optional", U.ST("LeafReq", True)),
                                  U.field(2, "optional", U.ST("Defaults", True)), U.field(3, "optional", U.ST("LeafUnk", True)),
                                  U.field(4, "optional", U.ST("Fix", True)), U.field(5, "optional", U.ST("Rec", True)),
                                  U.field(9, "default", U.ST("ZBadInner", True))])
    defs["ZBadInner"]["invalid"] = True
    defs["ZBadShare"]["invalid"] = True
    # decodes of holder types that fail after unknown fields were met (truncated messages), then full round trips of
    # OTHER holder values: what the failed call recorded must not show up
    fh = []
    for hs in [x for x in sorted(defs) if defs[x].get("unk") and not defs[x].get("invalid")]:
        b1 = U.base_value({"k": "struct", "ptr": False, "s": hs}, defs, 2, 1)
        v1 = {"f": b1["f"], "unk": U.unknown_bytes([1, 3, 8])}
        v2 = {"f": b1["f"], "unk": U.unknown_bytes([0])}
        fh.append({"sid": "%s-failed-holder-%s" % (prop, hs), "prop": prop, "vals": [v1, v2], "tags": ["failed-holder-decode"], "dkey": "failed-holder-" + hs,
                   "steps": [{"op": "encode", "ty": hs, "v": 0, "buf": {"mode": "rel", "n": 0, "extra": 0}},
                             {"op": "decode", "ty": hs, "from": 0, "cut": 1, "dest": "fresh"}, {"op": "decode", "ty": hs, "from": 0, "cut": 3, "dest": "fresh"},
                             {"op": "encode", "ty": hs, "v": 1, "buf": {"mode": "rel", "n": 0, "extra": 0}},
                             {"op": "decode", "ty": hs, "from": 3, "dest": "fresh", "orig": 1},
                             {"op": "decode", "ty": hs, "from": 0, "dest": "fresh", "orig": 0}]})
    rej = {"sid": "%s-rejected-interlude" % prop, "prop": prop, "vals": [], "tags": [], "dkey": "rejected-interlude",
           "steps": [{"op": "reject", "ty": "ZBadShare", "entry": e, "arg": "ptr", "class": "interlude", "repeat": 1} for e in ("encode", "decode", "size")]}
    again = []
    for sc in scen:
        if sc["sid"].endswith("-base-0"):
            c = dict(sc)
            c["sid"] = sc["sid"] + "-again"
            c["dkey"] = c["sid"]
            again.append(c)
    half = len(scen) // 2
    return fh + scen[:half] + [rej] + again + scen[half:] + [dict(rej, sid=rej["sid"] + "-2")] + [dict(a, sid=a["sid"] + "2", dkey=a["sid"] + "2") for a in again]


def random_cases(prop, defs, tier, rng, n):
    scen = []
    names = sorted(defs.keys())
    for i in range(n):
        s = rng.choice(names)
        v = U.rand_value({"k": "struct", "ptr": False, "s": s}, defs, rng, 4, 5)
        sid = "%s-rnd-%s-%d" % (prop, s, i)
        scen.append({"sid": sid, "prop": prop, "vals": [v], "steps": steps_for(prop, s, True),
                     "tags": struct_tags(s, v, defs), "dkey": sid})
    return scen


def run(prop, tier, seed, work):
    res = suite.Result(prop, tier, seed)
    rng = random.Random(seed * 7919 + 17)
    quick = tier == "quick"
    sizes = [0, 1, 2, 9, 14, 28] if quick else U.CONTAINER_SIZES
    strlens = [0, 1, 255, 257, 2049] if quick else U.STRLENS
    batches = []
    uf = U.universe_fields()
    import vlib
    st = vlib.codec_selfcheck(work, uf)
    res.tlc_states += st.get("distinct", 0)
    res.tlc_transitions += st.get("generated", 0)
    res.extra["spec_selfcheck"] = {"module": "spec/CodecMC.tla", "theorems": ["SizeIsLen", "ParseEnc", "RoundTrip", "OrderFree", "PrefixBad", "TrailFree"],
                                   "cases": st.get("distinct", 0), "result": "all hold"}
    fcases = cases_for(prop, uf, sorted(uf.keys()), tier, rng, sizes, strlens, salts=(0,) if quick else (0, 1, 2))
    if prop == "C01":
        fcases = with_rejected_interludes(prop, uf, fcases)
    batches.append(Batch("fields", uf, fcases))
    um = U.merge(U.universe_maps(), U.universe_lists())
    msizes = [0, 1, 2, 9] if quick else [0, 1, 2, 8, 9, 14, 28, 110]
    tops = [s for s in sorted(um.keys()) if not s.startswith(("Leaf_", "Fix_"))]   # private leaves: nested use only
    batches.append(Batch("containers", um, cases_for(prop, um, tops, tier, rng, msizes, strlens[:3])))
    nrand = 1 if quick else 10
    for i in range(nrand):
        ur = U.rand_universe(rng, nstructs=10 if quick else 16)
        batches.append(Batch("random%d" % i, ur, random_cases(prop, ur, tier, rng, 150 if quick else 1200)))
    # a wide struct (more than 256 fields, offsets beyond 2 KiB, holder at the far end): few values, it is the width that matters
    wk = [U.T("i32"), U.T("string"), U.T("i64", True), U.T("bool"), U.T("double"), U.L(U.T("i16")), U.T("i8"), U.T("binary"), U.T("i32", True), U.T("i16")]
    wd = {"Wide": U.struct([U.field(2 * j + 1, "optional" if (wk[j % 10].get("ptr") or j % 10 == 5) else ("required" if j % 7 == 0 else "default"), wk[j % 10])
                            for j in range(270)], unk=True)}
    U.with_defaults(wd)
    wt = {"k": "struct", "ptr": False, "s": "Wide"}
    wvals = [("base", U.base_value(wt, wd, 2, 3)), ("zero", U.zero_struct("Wide", wd)), ("b2", U.base_value(wt, wd, 2, 8, 1)),
             ("unk", {"f": U.base_value(wt, wd, 2, 5)["f"], "unk": U.unknown_bytes([0, 1, 3, 7])})]
    batches.append(Batch("wide", wd, [{"sid": "%s-Wide-%s" % (prop, lbl), "prop": prop, "vals": [v], "steps": steps_for(prop, "Wide", True),
                                       "tags": struct_tags("Wide", v, wd), "dkey": "%s-Wide-%s" % (prop, lbl)} for lbl, v in wvals]))
    if prop == "C16":
        batches.extend(c16_extra(work, res, uf, rng, quick))
    suite.run_batches(res, work, batches, want_props={prop, "C13"} if prop == "C01" else None)
    return suite.finish(res, RULES[prop], ASSUME)


def c16_extra(work, res, uf, rng, quick):
    """(a) small / large / small sequences with buffers sized by EncodedSize (no probing call in between):
    re-encoding a value after a larger one of the same type must write the same bytes into the caller's buffer;
    (b) DecodeObject on inputs that are not canonical (mutations of reference messages): the input stays untouched"""
    import vlib
    import checks_malformed as cm
    scen = []
    names = [s for s in sorted(uf.keys())]
    for s in names:
        vs = [v for (_, v) in U.struct_variants(s, uf, [0, 1, 9], [0, 1, 300])]
        if len(vs) < 3:
            continue
        for i in range(0, min(len(vs) - 2, 10 if quick else 60)):
            a, b = vs[i], vs[(i * 7 + 3) % len(vs)]
            enc = lambda vi, extra: {"op": "encode", "ty": s, "v": vi, "buf": {"mode": "size", "n": 0, "extra": extra}}
            steps = [enc(0, 0), enc(1, 0), enc(0, 0), enc(1, 16), enc(0, 16), {"op": "encode", "ty": s, "v": 0, "byval": True, "buf": {"mode": "size", "n": 0, "extra": 0}}]
            sid = "C16-seq-%s-%d" % (s, i)
            scen.append({"sid": sid, "prop": "C16", "vals": [a, b], "steps": steps, "tags": struct_tags(s, a, uf) + struct_tags(s, b, uf), "dkey": sid})
    # a value passed by pointer that the caller keeps, then by-value calls with OTHER values of the type: the first one is untouched
    kept = []
    for s in sorted(uf.keys()):
        if uf[s].get("invalid"):
            continue
        vs = [v for (_, v) in U.struct_variants(s, uf, [0, 1, 3], [0, 1, 9])][:3]
        if len(vs) < 2:
            continue
        steps = [{"op": "size", "ty": s, "v": 0, "keep": True},
                 {"op": "size", "ty": s, "v": 1, "byval": True},
                 {"op": "encode", "ty": s, "v": len(vs) - 1, "byval": True, "buf": {"mode": "size", "n": 0, "extra": 0}},
                 {"op": "recheck", "obj": 0, "after": "byval-calls"},
                 {"op": "encode", "ty": s, "v": 0, "keep": False, "buf": {"mode": "size", "n": 0, "extra": 0}}]
        sid = "C16-kept-%s" % s
        # (first in the batch: the by-value calls are then the first ones the type ever sees)
        kept.append({"sid": sid, "prop": "C16", "vals": vs, "steps": steps, "tags": ["kept-argument"], "dkey": sid})
    scen = kept + scen
    out = [Batch("sequences", uf, scen)]
    ddefs = cm.decoder_universe()
    dpath = vlib.write_defs(work, ddefs)
    cases = []
    for s in ("Sc", "Co", "St"):
        v = U.base_value({"k": "struct", "ptr": False, "s": s}, ddefs, 2, 0, 1)
        cases.append({"cid": s, "w": s, "val": v, "ord": "asc", "trail": [], "mut": "subst"})
    msgs, st = vlib.gen_messages(work, dpath, cases)
    res.tlc_states += st.get("distinct", 0)
    res.tlc_transitions += st.get("generated", 0)
    dscen = []
    for c in cases:
        ms = msgs[c["cid"]]
        if quick and len(ms) > 1200:
            ms = rng.sample(ms, 1200)
        steps = [{"op": "decode", "ty": c["w"], "in": m, "dest": "fresh"} for m in ms]
        for i in range(0, len(steps), 300):
            sid = "C16-dec-%s-%d" % (c["cid"], i)
            dscen.append({"sid": sid, "prop": "C16", "vals": [], "steps": steps[i:i + 300], "tags": [], "dkey": sid})
    out.append(Batch("noncanonical-inputs", ddefs, dscen))
    # holder types reading messages whose unknown fields are separated by known ones (the retained bytes are gathered from
    # several places of the input: the input itself must stay as it was)
    from universe import T, field, struct
    hd = {"WRunsI": struct([field(i, "default", T("i32") if i % 3 else T("string")) for i in range(1, 11)])}
    # long runs of fixed-width elements (a decoder may be tempted to convert them in place)
    from universe import L, SET, M
    hd["Fixed8"] = struct([field(1, "default", L(T("i64"))), field(2, "default", SET(T("double"))), field(3, "default", L(T("i32"))), field(4, "default", L(T("i16"))),
                           field(5, "default", M(T("i64"), T("double"))), field(6, "default", L(T("enum")))])
    masks = [{2, 4}, {3, 6, 9}, {1, 5, 10}, {2, 3, 7, 8}, {5}, {1, 3, 5, 7, 9}]
    for mi, mk in enumerate(masks):
        hd["TRunsI%d" % mi] = struct([f for f in hd["WRunsI"]["fields"] if f["id"] in mk], unk=True)
    U.with_defaults(hd)
    hpath = vlib.write_defs(work, hd)
    hcases = []
    for vi in range(2):
        v = U.base_value({"k": "struct", "ptr": False, "s": "WRunsI"}, hd, 2, vi)
        for o in ("asc", "desc", "rot", "evod"):
            hcases.append({"cid": "runs|%d|%s" % (vi, o), "w": "WRunsI", "val": v, "ord": o, "trail": [9] if vi else [], "mut": "none"})
    hmsgs, st = vlib.gen_messages(work, hpath, hcases)
    res.tlc_states += st.get("distinct", 0)
    res.tlc_transitions += st.get("generated", 0)
    hscen = []
    fx = []
    for n in (31, 32, 33, 64, 200):
        v = {"f": {"1": {"nil": False, "items": [U.be(j * 1000003 + 1, 8) for j in range(n)]}, "2": {"nil": False, "items": [U.be(0x3ff0000000000000 + j * 4099, 8) for j in range(n)]},
                   "3": {"nil": False, "items": [U.be(j * 65537 + 3, 4) for j in range(n)]}, "4": {"nil": False, "items": [U.be(j * 257 % 65536, 2) for j in range(n)]},
                   "5": {"nil": False, "ents": [[U.be(j + 1, 8), U.be(0x4000000000000000 + j, 8)] for j in range(n)]},
                   "6": {"nil": False, "items": [U.enum8(j * 3) for j in range(n)]}}, "unk": []}
        fx.append({"cid": "fx8|%d" % n, "w": "Fixed8", "val": v, "ord": "asc", "trail": [], "mut": "none"})
    fmsgs, stf = vlib.gen_messages(work, hpath, fx)
    res.tlc_states += stf.get("distinct", 0)
    res.tlc_transitions += stf.get("generated", 0)
    fsteps = []
    for c in fx:
        m = fmsgs[c["cid"]][0]
        fsteps += [{"op": "decode", "ty": "Fixed8", "in": m, "dest": "fresh"}, {"op": "decode", "ty": "Fixed8", "in": m, "dest": "zero"}]
    hscen.append({"sid": "C16-dec-fixed-runs", "prop": "C16", "vals": [], "steps": fsteps, "tags": ["fixed-runs"], "dkey": "fixed-runs"})
    for mi in range(len(masks)):
        steps = []
        for c in hcases:
            m = hmsgs[c["cid"]][0]
            steps.append({"op": "decode", "ty": "TRunsI%d" % mi, "in": m, "dest": "fresh"})
            steps.append({"op": "decode", "ty": "TRunsI%d" % mi, "in": m, "dest": "zero"})     # the same buffer contents again
        sid = "C16-dec-holder-runs-%d" % mi
        hscen.append({"sid": sid, "prop": "C16", "vals": [], "steps": steps, "tags": ["holder-runs"], "dkey": sid})
    out.append(Batch("holder-inputs", hd, hscen))
    return out
