"""Type universes (Defs) and abstract values for the generators.

A universe is the data the TLA+ modules read as Defs (spec/Schema.tla) and typegen turns
into Go types.  Values follow spec/Codec.tla ("Go values")."""
import random

FIXED = ["bool", "i8", "i16", "i32", "i64", "double", "enum"]
GOW = {"bool": 1, "i8": 1, "i16": 2, "i32": 4, "i64": 8, "double": 8, "enum": 8}
SCALARS = FIXED + ["string"]


# ---- type constructors ---------------------------------------------------------------
def T(k, ptr=False):
    return {"k": k, "ptr": ptr}


def L(e):
    return {"k": "list", "ptr": False, "e": e}


def SET(e):
    return {"k": "set", "ptr": False, "e": e}


def M(kt, vt):
    return {"k": "map", "ptr": False, "kt": kt, "vt": vt}


def ST(name, ptr=True):
    return {"k": "struct", "ptr": ptr, "s": name}


def field(fid, req, t, nocopy=False, name=None):
    nm = name or ("F%d" % fid)
    return {"id": fid, "key": str(fid), "req": req, "t": t, "nocopy": nocopy,
            "name": list(nm.encode())}


def struct(fields, init=False, unk=False):
    return {"fields": fields, "init": init, "unk": unk}


def type_sig(t):
    k = t["k"]
    p = "*" if t.get("ptr") else ""
    if k in ("list", "set"):
        return "%s%s<%s>" % (p, k, type_sig(t["e"]))
    if k == "map":
        return "%smap<%s:%s>" % (p, type_sig(t["kt"]), type_sig(t["vt"]))
    if k == "struct":
        return p + "struct"
    return p + k


# ---- values ---------------------------------------------------------------------------
def be(n, w):
    return list((n % (1 << (8 * w))).to_bytes(w, "big"))


def enum8(n32):
    """enum within 32 bits, as the 8-byte Go int64"""
    return be(n32 if n32 < (1 << 31) else n32 - (1 << 32), 8)


BOUNDARY = {
    "bool": [[0], [1]],
    "i8": [[0], [1], [127], [128], [255]],
    "i16": [[0, 0], [0, 1], [127, 255], [128, 0], [255, 255], [1, 0]],
    "i32": [[0, 0, 0, 0], [0, 0, 0, 1], [127, 255, 255, 255], [128, 0, 0, 0], [255, 255, 255, 255],
            [0, 1, 0, 0], [1, 2, 3, 4]],
    "i64": [[0] * 8, [0] * 7 + [1], [127] + [255] * 7, [128] + [0] * 7, [255] * 8,
            [0, 0, 0, 1, 0, 0, 0, 0], [1, 2, 3, 4, 5, 6, 7, 8]],
    "double": [[0] * 8, [128] + [0] * 7,                       # +0.0 -0.0
               [63, 240, 0, 0, 0, 0, 0, 0],                    # 1.0
               [127, 240, 0, 0, 0, 0, 0, 0], [255, 240, 0, 0, 0, 0, 0, 0],   # +-Inf
               [127, 248, 0, 0, 0, 0, 0, 0],                    # quiet NaN
               [127, 240, 0, 0, 0, 0, 0, 1],                    # signalling NaN
               [255, 248, 0, 0, 0, 0, 18, 52],                  # NaN with payload
               [0, 0, 0, 0, 0, 0, 0, 1],                        # denormal
               [64, 9, 33, 251, 84, 68, 45, 24]],               # pi
    "enum": [enum8(0), enum8(1), enum8((1 << 32) - 1), enum8(1 << 31), enum8((1 << 31) - 1), enum8(70000)],
}
STRLENS = [0, 1, 2, 255, 256, 257, 2047, 2048, 2049, 5000]
CONTAINER_SIZES = [0, 1, 2, 8, 9, 13, 14, 27, 28, 54, 110, 215]


def strbytes(n, salt=0):
    return [(i * 7 + salt * 13 + 65) % 256 for i in range(n)]


def zero(t, defs):
    if t.get("ptr"):
        return {"p": 0}
    k = t["k"]
    if k in GOW:
        return [0] * GOW[k]
    if k == "string":
        return []
    if k == "binary":
        return {"nil": True, "b": []}
    if k in ("list", "set"):
        return {"nil": True, "items": []}
    if k == "map":
        return {"nil": True, "ents": []}
    if k == "struct":
        return zero_struct(t["s"], defs)
    raise ValueError(k)


def zero_struct(s, defs):
    return {"f": {f["key"]: zero(f["t"], defs) for f in defs[s]["fields"]}, "unk": []}


def default_struct(s, defs):
    d = defs[s]
    if not d.get("init"):
        return zero_struct(s, defs)
    return {"f": {f["key"]: f["def"] for f in d["fields"]}, "unk": []}


def key_n(t, j, defs):
    """j-th distinct key of key type t (j >= 0)"""
    k = t["k"]
    if k == "bool":
        return [j % 2]
    if k == "i8":
        return [(j * 37 + 250) % 256]
    if k == "i16":
        return be(j * 257 + 65530, 2)
    if k == "i32":
        return be(j * 1000003 + 0x7ffffff0, 4)
    if k == "i64":
        return be(j * 1000000007 + 0x7ffffffffffffff0, 8)
    if k == "double":
        return be(0x3ff0000000000000 + j * 0x0008000000100001, 8)
    if k == "enum":
        return enum8((j * 65537 + 0x7ffffffa) % (1 << 32))
    if k == "string":
        return list(("k%d" % ((j * 7919 + 13) % 10007)).encode()) if j else []
    if k == "struct":   # pointer struct key
        v = base_value({"k": "struct", "ptr": False, "s": t["s"]}, defs, 1, salt=j)
        return {"p": 1, "v": v}
    raise ValueError(k)


def key_capacity(t):
    return {"bool": 2, "i8": 256}.get(t["k"], 1 << 30)


def base_value(t, defs, depth=2, salt=0, csize=2):
    """a typical, non-trivial value of type t"""
    if t.get("ptr"):
        if t["k"] == "struct" and depth <= 0:
            return {"p": 0}
        t2 = dict(t, ptr=False)
        return {"p": 1, "v": base_value(t2, defs, depth - (1 if t["k"] == "struct" else 0), salt, csize)}
    k = t["k"]
    if k in GOW:
        b = BOUNDARY[k]
        return b[(salt + len(b) - 1) % len(b)] if k != "double" else [[64, 9, 33, 251, 84, 68, 45, 24], [63, 240, 0, 0, 0, 0, 0, 0], [192, 94, 221, 47, 26, 159, 190, 119]][salt % 3]
    if k == "string":
        return strbytes(3 + salt % 5, salt)
    if k == "binary":
        return {"nil": False, "b": strbytes(2 + salt % 4, salt + 1)}
    if k in ("list", "set"):
        if depth <= 0 and not scalarish(t["e"]):
            return {"nil": False, "items": []}
        n = csize
        if k == "set":
            return {"nil": False, "items": [elem_n(t["e"], j, defs, depth - 1, salt) for j in range(n)]}
        return {"nil": False, "items": [sparse_or_full(t["e"], defs, depth - 1, salt + j, csize, j) for j in range(n)]}
    if k == "map":
        if depth <= 0 and not (scalarish(t["kt"]) and scalarish(t["vt"])):
            return {"nil": False, "ents": []}
        n = min(csize, key_capacity(t["kt"]))
        return {"nil": False, "ents": [[key_n(t["kt"], j, defs), sparse_or_full(t["vt"], defs, depth - 1, salt + j, csize, j)]
                                       for j in range(n)]}
    if k == "struct":
        d = defs[t["s"]]
        return {"f": {f["key"]: base_value(f["t"], defs, depth - 1, salt + i, csize) for i, f in enumerate(d["fields"])},
                "unk": []}
    raise ValueError(k)


def sparse_or_full(t, defs, depth, salt, csize, j):
    """struct elements alternate between a fully populated and an all-zero (sparse) value, so
    that consecutive elements differ in which fields they carry"""
    if t["k"] == "struct" and (j + salt) % 2 == 1:
        z = zero_struct(t["s"], defs)
        return {"p": 1, "v": z} if t.get("ptr") else z
    return base_value(t, defs, depth, salt, csize)


def elem_n(t, j, defs, depth, salt):
    """j-th distinct element (for sets)"""
    if t["k"] in SCALARS and not t.get("ptr"):
        return key_n(t, j + salt, defs)
    return base_value(t, defs, depth, salt + j)


def scalarish(t):
    return t["k"] in SCALARS or t["k"] == "binary"


def sized_container(t, n, defs, salt=0):
    k = t["k"]
    if k in ("list", "set"):
        return {"nil": False, "items": [elem_n(t["e"], j, defs, 1, salt) for j in range(n)]}
    n = min(n, key_capacity(t["kt"]))
    return {"nil": False, "ents": [[key_n(t["kt"], j, defs), sparse_or_full(t["vt"], defs, 1, salt + j, 1, j)] for j in range(n)]}


def interesting(t, defs, req, sizes=CONTAINER_SIZES, strlens=STRLENS):
    """values of a field type to substitute one at a time"""
    out = []
    if t.get("ptr"):
        out.append({"p": 0}) if (req == "optional" or t["k"] == "struct") else None
        t2 = dict(t, ptr=False)
        for v in interesting(t2, defs, req, sizes[:4], strlens[:4]):
            out.append({"p": 1, "v": v})
        return out
    k = t["k"]
    if k in GOW:
        return list(BOUNDARY[k])
    if k == "string":
        return [strbytes(n, n) for n in strlens]
    if k == "binary":
        return [{"nil": True, "b": []}] + [{"nil": False, "b": strbytes(n, n + 1)} for n in strlens]
    if k in ("list", "set", "map"):
        nilv = {"nil": True, "items": []} if k != "map" else {"nil": True, "ents": []}
        out = [nilv] + [sized_container(t, n, defs, n) for n in sizes]
        # containers of minimal (zero) elements: the smallest wire size per element
        if k == "map":
            out.append({"nil": False, "ents": [[key_n(t["kt"], j, defs), zero_elem(t["vt"], defs)]
                                               for j in range(min(3, key_capacity(t["kt"])))]})
        else:
            out.append({"nil": False, "items": [zero_elem(t["e"], defs) for _ in range(3)]})
        # containers of containers: inner lengths decreasing (3, 2, 1, 0) - whatever one entry leaves behind is too long for the next
        et0 = t["e"] if k != "map" else t["vt"]
        if et0["k"] in ("list", "set", "map") and not et0.get("ptr"):
            inner = [sized_container(et0, n, defs, 3 + n) for n in (3, 2, 1, 0)]
            if k == "map":
                cap_ = key_capacity(t["kt"])
                out.append({"nil": False, "ents": [[key_n(t["kt"], j, defs), inner[j]] for j in range(min(4, cap_))]})
            else:
                out.append({"nil": False, "items": inner})
        # pointer-struct elements / values that are nil (written as an empty struct)
        et = t["e"] if k != "map" else t["vt"]
        if et.get("ptr") and et["k"] == "struct":
            c = sized_container(t, 3, defs, 1)
            if k == "map":
                for j, kv in enumerate(c["ents"]):
                    if j != 1:
                        kv[1] = {"p": 0}
            else:
                c["items"][0] = {"p": 0}
                c["items"][-1] = {"p": 0}
            out.append(c)
        return out
    if k == "struct":
        # a full nested value, and a sparse one (every optional / nil-able member absent): decoded over a fuller
        # destination, nothing of the old nested value may remain
        out = [base_value(t, defs, 2, 5), zero_struct(t["s"], defs)]
        # a nested struct equal to its declared defaults (nothing of it but STOP is written; the reader's initialiser supplies it)
        if defs[t["s"]].get("init"):
            out.append(default_struct(t["s"], defs))
        # the first declared field zero (the struct's first machine word), the rest as in the full value
        fs = defs[t["s"]]["fields"]
        if len(fs) > 1:
            v = {"f": dict(out[0]["f"]), "unk": []}
            v["f"][fs[0]["key"]] = zero(fs[0]["t"], defs)
            out.append(v)
        return out
    raise ValueError(k)


def lengthen(t, v, n, defs, depth=3):
    """the same value with every string / binary inside it (elements, keys, values, nested) at least n bytes long"""
    if t.get("ptr"):
        return v if v.get("p") == 0 else {"p": 1, "v": lengthen(dict(t, ptr=False), v["v"], n, defs, depth)}
    k = t["k"]
    if k == "string":
        return v + [97 + (i % 26) for i in range(max(0, n - len(v)))]
    if k == "binary":
        return v if v.get("nil") else {"nil": False, "b": v["b"] + [65 + (i % 26) for i in range(max(0, n - len(v["b"])))]}
    if k in ("list", "set"):
        return dict(v, items=[lengthen(t["e"], x, n, defs, depth) for x in v["items"]])
    if k == "map":
        return dict(v, ents=[[lengthen(t["kt"], a, n, defs, depth), lengthen(t["vt"], b, n, defs, depth)] for a, b in v["ents"]])
    if k == "struct" and depth > 0:
        byk = {f["key"]: f for f in defs[t["s"]]["fields"]}
        return {"f": {key: lengthen(byk[key]["t"], x, n, defs, depth - 1) for key, x in v["f"].items()}, "unk": v["unk"]}
    return v


def zero_elem(t, defs):
    """smallest element: zero scalar, empty string/binary/container (non-nil), nil pointer struct"""
    if t.get("ptr"):
        return {"p": 0}
    k = t["k"]
    if k == "binary":
        return {"nil": False, "b": []}
    if k in ("list", "set"):
        return {"nil": False, "items": []}
    if k == "map":
        return {"nil": False, "ents": []}
    return zero(t, defs)


# raw unknown fields (ids 30000..30007 are never declared by a generated struct):
# i32, string, empty struct, list<i16>, map<i8,bool>, double, bool, nested struct with a string
UNKNOWN_RAW = [
    [8, 117, 48, 0, 0, 1, 0],
    [11, 117, 49, 0, 0, 0, 3, 120, 121, 122],
    [12, 117, 50, 0],
    [15, 117, 51, 6, 0, 0, 0, 2, 0, 1, 255, 255],
    [13, 117, 52, 3, 2, 0, 0, 0, 1, 7, 1],
    [4, 117, 53, 64, 9, 33, 251, 84, 68, 45, 24],
    [2, 117, 54, 1],
    [12, 117, 55, 11, 0, 1, 0, 0, 0, 1, 97, 8, 0, 2, 0, 0, 0, 9, 0],
    # map<string,i64> (variable-size key, fixed-size value), list<string>, map<i32,string>
    [13, 117, 56, 11, 10, 0, 0, 0, 2, 0, 0, 0, 2, 107, 121, 0, 0, 0, 0, 0, 0, 0, 9, 0, 0, 0, 1, 122, 255, 255, 255, 255, 255, 255, 255, 255],
    [15, 117, 57, 11, 0, 0, 0, 2, 0, 0, 0, 1, 97, 0, 0, 0, 0],
    [13, 117, 58, 8, 11, 0, 0, 0, 1, 0, 0, 0, 5, 0, 0, 0, 3, 120, 121, 122],
]


def unknown_bytes(which):
    out = []
    for i in which:
        out += UNKNOWN_RAW[i % len(UNKNOWN_RAW)]
    return out


def struct_variants(s, defs, sizes=CONTAINER_SIZES, strlens=STRLENS, salt=0):
    """baseline value of s plus one-factor-at-a-time variants; yields (label, value)"""
    t = {"k": "struct", "ptr": False, "s": s}
    basev = base_value(t, defs, 3, salt)
    yield "base", basev
    yield "zero", zero_struct(s, defs)
    if defs[s].get("init"):
        yield "alldefault", default_struct(s, defs)
    zv = zero_struct(s, defs)
    if defs[s].get("unk"):
        for which in ([0], [1, 2], [3, 4, 5, 6, 7], list(range(8)) * 3):
            yield "unk%d" % len(which), {"f": dict(basev["f"]), "unk": unknown_bytes(which)}
            yield "zunk%d" % len(which), {"f": dict(zv["f"]), "unk": unknown_bytes(which)}
    # recursive types: the same container type nested inside its own elements / values, several levels, every level non-empty
    selfrefs = [f for f in defs[s]["fields"] if f["t"]["k"] in ("list", "set", "map") and
                (f["t"].get("e") or f["t"].get("vt") or {}).get("s") == s and (f["t"].get("e") or f["t"].get("vt") or {}).get("ptr")]
    if selfrefs:
        def tree(level, salt2):
            v = {"f": dict(zv["f"]), "unk": []}
            for f in defs[s]["fields"]:
                if f["t"]["k"] in GOW or f["t"]["k"] == "string":
                    v["f"][f["key"]] = base_value(f["t"], defs, 1, salt2 + level)
            if level > 0:
                for f in selfrefs:
                    kids = [{"p": 1, "v": tree(level - 1, salt2 * 3 + j + 1)} for j in range(2)]
                    if f["t"]["k"] == "map":
                        v["f"][f["key"]] = {"nil": False, "ents": [[key_n(f["t"]["kt"], j + level * 2, defs), kids[j]] for j in range(2)]}
                    else:
                        v["f"][f["key"]] = {"nil": False, "items": kids}
            return v
        yield "tree3", tree(3, salt)
    for f in defs[s]["fields"]:
        for i, v in enumerate(interesting(f["t"], defs, f["req"], sizes, strlens)):
            nv = {"f": dict(basev["f"]), "unk": basev["unk"]}
            nv["f"][f["key"]] = v
            yield "%s=%d" % (f["key"], i), nv
            if f["t"]["k"] in ("list", "set", "map", "string", "binary") and not f["t"].get("ptr"):
                # the same value with every other field zero / nil (the field is the last thing written)
                nz = {"f": dict(zv["f"]), "unk": []}
                nz["f"][f["key"]] = v
                yield "z%s=%d" % (f["key"], i), nz


# ---- random values ----------------------------------------------------------------------
def rand_value(t, defs, rng, depth=3, maxn=6):
    if t.get("ptr"):
        if rng.random() < 0.25 or (t["k"] == "struct" and depth <= 0):
            return {"p": 0}
        return {"p": 1, "v": rand_value(dict(t, ptr=False), defs, rng, depth - 1, maxn)}
    k = t["k"]
    if k in GOW:
        if rng.random() < 0.5:
            return rng.choice(BOUNDARY[k])
        if k == "bool":
            return [rng.randrange(2)]
        if k == "enum":
            return enum8(rng.randrange(1 << 32))
        return [rng.randrange(256) for _ in range(GOW[k])]
    if k == "string":
        n = rng.choice([0, 1, 3, 7, 20, rng.choice(STRLENS)]) if rng.random() < 0.3 else rng.randrange(12)
        return [rng.randrange(256) for _ in range(n)]
    if k == "binary":
        if rng.random() < 0.15:
            return {"nil": True, "b": []}
        n = rng.choice(STRLENS) if rng.random() < 0.1 else rng.randrange(12)
        return {"nil": False, "b": [rng.randrange(256) for _ in range(n)]}
    if k in ("list", "set"):
        if rng.random() < 0.12:
            return {"nil": True, "items": []}
        n = 0 if depth <= 0 else (rng.choice(CONTAINER_SIZES) if rng.random() < 0.1 else rng.randrange(maxn))
        if k == "set" and scalarish(t["e"]) and not t["e"].get("ptr"):
            n = min(n, key_capacity(t["e"]))
            off = rng.randrange(1000)
            return {"nil": False, "items": [key_n(t["e"], off + j, defs) if t["e"]["k"] != "binary" else
                                            {"nil": False, "b": list(("b%d" % (off + j)).encode())} for j in range(n)]}
        return {"nil": False, "items": [rand_elem(t["e"], defs, rng, depth - 1, maxn) for _ in range(n)]}
    if k == "map":
        if rng.random() < 0.12:
            return {"nil": True, "ents": []}
        n = 0 if depth <= 0 else (rng.choice(CONTAINER_SIZES) if rng.random() < 0.1 else rng.randrange(maxn))
        n = min(n, key_capacity(t["kt"]))
        off = rng.randrange(1000) if key_capacity(t["kt"]) > 256 else 0
        return {"nil": False, "ents": [[key_n(t["kt"], off + j, defs) if t["kt"]["k"] != "struct" else
                                        {"p": 1, "v": rand_value(dict(t["kt"], ptr=False), defs, rng, max(depth - 1, 0), maxn)},
                                        rand_elem(t["vt"], defs, rng, depth - 1, maxn)] for j in range(n)]}
    if k == "struct":
        d = defs[t["s"]]
        unk = []
        if d.get("unk") and rng.random() < 0.5:
            unk = unknown_bytes([rng.randrange(8) for _ in range(rng.randrange(1, 4))])
        return {"f": {f["key"]: rand_value(f["t"], defs, rng, depth - 1, maxn) for f in d["fields"]}, "unk": unk}
    raise ValueError(k)


def rand_elem(t, defs, rng, depth, maxn):
    """element of a list / map: pointer structs may be nil only if that round-trips"""
    if t.get("ptr") and t["k"] == "struct":
        if depth <= 0:
            return {"p": 0}
        return {"p": 1, "v": rand_value(dict(t, ptr=False), defs, rng, depth, maxn)}
    return rand_value(t, defs, rng, depth, maxn)


# ---- the codec universe ------------------------------------------------------------------
def with_defaults(defs):
    """fill in 'def' for every field of init structs that lacks one (zero value)"""
    for s, d in defs.items():
        if d.get("init"):
            for f in d["fields"]:
                if "def" not in f:
                    f["def"] = zero(f["t"], defs)
    return defs


def leaf_structs():
    return {
        "Fix": struct([field(1, "default", T("i32")), field(2, "default", T("i64")), field(3, "default", T("double")),
                       field(4, "default", T("bool"))]),
        "Leaf": struct([field(1, "default", T("i32")), field(2, "optional", T("string", True))]),
        "LeafReq": struct([field(1, "required", T("i64")), field(2, "default", T("string"))]),
        "LeafUnk": struct([field(1, "default", T("i16")), field(3, "optional", T("binary"))], unk=True),
    }


KEY_KINDS = ["bool", "i8", "i16", "i32", "i64", "double", "enum", "string", "*struct"]
VAL_FORMS = ["bool", "i8", "i16", "i32", "i64", "double", "enum", "string", "binary",
             "struct", "*struct", "list", "set", "map", "fixstruct", "*fixstruct"]


def form_type(form, leaf="Leaf"):
    if form == "*fixstruct":
        return ST("Fix", True)
    if form == "fixstruct":
        return ST("Fix", False)
    if form == "*struct":
        return ST(leaf, True)
    if form == "struct":
        return ST(leaf, False)
    if form == "list":
        return L(T("i32"))
    if form == "set":
        return SET(T("string"))
    if form == "map":
        return M(T("i32"), T("string"))
    return T(form)


def private_leaf(defs, owner, form):
    """a copy of the leaf struct used by nobody else: a struct type reachable only through
    one container shape (process-wide caches must not be what makes it work)"""
    if "struct" not in form:
        return "Leaf"
    base = "Fix" if "fix" in form else "Leaf"
    name = "%s_%s" % (base, owner)
    import copy
    defs[name] = copy.deepcopy(leaf_structs()[base])
    return name


def form_type2(defs, owner, form):
    if "struct" in form:
        return ST(private_leaf(defs, owner, form), form.startswith("*"))
    return form_type(form)


def universe_maps():
    defs = leaf_structs()
    for kk in KEY_KINDS:
        for vf in VAL_FORMS:
            name = "M_%s_%s" % (kk.replace("*", "p"), vf.replace("*", "p"))
            defs[name] = struct([field(1, "default", M(form_type2(defs, name + "k", kk), form_type2(defs, name + "v", vf))),
                                 field(2, "default", T("i8"))])
    return with_defaults(defs)


def universe_lists():
    defs = leaf_structs()
    for ck, C in (("list", L), ("set", SET)):
        for vf in VAL_FORMS:
            name = "%s_%s" % (ck.capitalize(), vf.replace("*", "p"))
            defs[name] = struct([field(1, "default", C(form_type2(defs, name, vf))), field(7, "optional", C(form_type2(defs, name, vf)))])
    return with_defaults(defs)


def universe_fields():
    """every scalar kind x requiredness x pointer-ness; defaults; ids; nesting; recursion"""
    defs = leaf_structs()
    kinds = SCALARS + ["binary"]
    fs, i = [], 1
    for k in kinds:
        fs.append(field(i, "required", T(k))); i += 1
        fs.append(field(i, "default", T(k))); i += 1
        fs.append(field(i, "optional", T(k, k != "binary"))); i += 1
    defs["AllKinds"] = struct(fs)
    # optional non-pointer fields with declared defaults
    fs, i = [], 1
    dv = {"bool": [1], "i8": [7], "i16": [1, 0], "i32": [0, 0, 1, 0], "i64": [0] * 7 + [9],
          "double": [63, 240, 0, 0, 0, 0, 0, 0], "enum": enum8(3), "string": list(b"dflt")}
    for k in SCALARS:
        f = field(i, "optional", T(k)); f["def"] = dv[k]; fs.append(f); i += 1
        f = field(i, "optional", T(k)); fs.append(f); i += 1            # default = zero value
    f = field(i, "optional", T("binary")); f["def"] = {"nil": False, "b": [1, 2]}; fs.append(f); i += 1
    f = field(i, "optional", T("binary")); fs.append(f); i += 1
    f = field(i, "default", T("i32")); f["def"] = [0, 0, 0, 42]; fs.append(f); i += 1
    f = field(i, "optional", L(T("i32"))); fs.append(f); i += 1
    f = field(i, "optional", T("double")); f["def"] = [127, 248, 0, 0, 0, 0, 0, 0]; fs.append(f); i += 1   # NaN default
    # containers with non-empty declared defaults: an empty container in the message overrides them
    f = field(i, "optional", L(T("i32"))); f["def"] = {"nil": False, "items": [[0, 0, 0, 30]]}; fs.append(f); i += 1
    f = field(i, "default", SET(T("string"))); f["def"] = {"nil": False, "items": [list(b"a"), list(b"b")]}; fs.append(f); i += 1
    f = field(i, "optional", M(T("string"), T("i32"))); f["def"] = {"nil": False, "ents": [[list(b"k"), [0, 0, 0, 1]]]}; fs.append(f); i += 1
    f = field(i, "default", T("binary")); f["def"] = {"nil": False, "b": [9, 9]}; fs.append(f); i += 1
    f = field(i, "default", T("string")); f["def"] = list(b"dd"); fs.append(f); i += 1
    f = field(i, "optional", T("i64", True)); f["def"] = {"p": 1, "v": [0] * 7 + [5]}; fs.append(f); i += 1          # non-nil pointer default
    defs["Defaults"] = struct(fs, init=True)
    # only fixed-size, non-optional fields plus the holder (every size shortcut applies; the holder must still count)
    defs["FixUnk"] = struct([field(1, "default", T("i32")), field(2, "required", T("i64")), field(3, "default", T("bool")),
                             field(4, "default", T("double"))], unk=True)
    defs["FixUnkNest"] = struct([field(1, "default", ST("FixUnk", False)), field(2, "default", L(ST("FixUnk", False))),
                                 field(3, "default", M(T("string"), ST("FixUnk", True))), field(4, "default", L(ST("FixUnk", True)))])
    # the last fields (by id) are optional non-pointer fields with declared defaults
    dl = [field(1, "default", T("i32")), field(300, "optional", T("i32")), field(301, "optional", T("string")), field(65535, "optional", T("i64"))]
    dl[1]["def"] = [0, 0, 0, 7]
    dl[2]["def"] = list(b"tail")
    dl[3]["def"] = [0] * 7 + [1]
    defs["DefLast"] = struct(dl, init=True)
    # nocopy fields with non-empty declared defaults: an empty value in the message overrides the default
    nc = [field(1, "default", T("string"), nocopy=True), field(2, "optional", T("string"), nocopy=True), field(3, "required", T("string"), nocopy=True),
          field(4, "default", T("binary"), nocopy=True), field(5, "optional", T("string", True), nocopy=True), field(6, "default", T("string"))]
    nc[0]["def"] = list(b"eu-west")
    nc[1]["def"] = list(b"n/a")
    nc[2]["def"] = list(b"rq")
    nc[3]["def"] = {"nil": False, "b": [7, 7, 7]}
    nc[5]["def"] = list(b"plain")
    defs["DefNc"] = struct(nc, init=True)
    defs["DefNcN"] = struct([field(1, "default", ST("DefNc", True)), field(2, "default", L(ST("DefNc", True))),
                             field(3, "default", M(T("string"), ST("DefNc", False))), field(4, "default", ST("DefNc", False))])
    # Go's int kind: plain int is i64; a named int under its own name is an enum (i32 on the wire), under the keyword an i64
    gi = lambda ptr=False: dict(T("i64", ptr), gotype="*int" if ptr else "int")
    ge = lambda ptr=False: dict(T("enum", ptr), gotype="*EnumI" if ptr else "EnumI", ann="EnumI")
    defs["GoInt"] = struct([field(1, "default", gi()), field(2, "optional", gi(True)), field(3, "default", ge()), field(4, "optional", ge(True)),
                            field(5, "default", L(ge())), field(6, "default", M(ge(), gi())), field(7, "required", ge()),
                            field(8, "default", dict(T("enum"), gotype="MyInt", ann="MyInt")), field(9, "default", dict(T("i64"), gotype="MyInt", ann="i64")),
                            field(10, "default", SET(gi())), field(11, "default", M(T("string"), ge()))])
    # field ids on both sides of presence-set word boundaries
    ids = [0, 1, 63, 64, 65, 127, 128, 255, 256, 1023, 1024, 32767, 32768, 65534]
    defs["Ids"] = struct([field(x, ["required", "default", "optional"][j % 3],
                                T("i32") if j % 3 != 2 else T("i32", True)) for j, x in enumerate(ids)])
    # nesting: by-value and pointer structs, holders, defaults on nested structs
    defs["Nest"] = struct([field(1, "default", ST("Leaf", True)), field(2, "optional", ST("Leaf", True)),
                           field(3, "default", ST("Leaf", False)), field(4, "required", ST("LeafReq", True)),
                           field(5, "default", ST("Defaults", True)), field(6, "default", ST("LeafUnk", False)),
                           field(7, "default", L(ST("Defaults", True))), field(8, "default", M(T("string"), ST("Defaults", True))),
                           field(9, "default", L(ST("LeafUnk", True)))], unk=True)
    # optional structs held by value (always written: there is no nil to test)
    defs["OptVal"] = struct([field(1, "optional", ST("Leaf", False)), field(2, "optional", ST("Fix", False)),
                             field(3, "optional", ST("LeafReq", False)), field(4, "default", T("i8"))])
    # pointer-shaped structs nested by value in pointer-shaped structs (also stored directly in an interface value)
    defs["WrapPtr"] = struct([field(1, "default", ST("OnePtr", False))])
    defs["WrapMap"] = struct([field(1, "default", ST("OneMap", False))])
    defs["WrapOptPtr"] = struct([field(1, "optional", ST("OneOptPtr", False))])
    defs["WrapWrap"] = struct([field(7, "default", ST("WrapPtr", False))])
    # single-field structs (Go stores a one-word struct directly in an interface value)
    defs["OnePtr"] = struct([field(1, "default", ST("Leaf", True))])
    defs["OneMap"] = struct([field(1, "default", M(T("string"), T("i32")))])
    defs["OneOptPtr"] = struct([field(1, "optional", T("i64", True))])
    defs["OneStr"] = struct([field(1, "default", T("string"))])
    defs["OneI64"] = struct([field(1, "required", T("i64"))])
    # the same Go type under schemas that differ only deep inside the annotation; both orders of first use
    defs["Dp1_a_lll"] = struct([field(1, "default", L(L(L(T("i32"))))), field(2, "default", M(T("string"), L(L(T("string")))))])
    defs["Dp1_b_lls"] = struct([field(1, "default", L(L(SET(T("i32"))))), field(2, "default", M(T("string"), L(SET(T("string")))))])
    defs["Dp2_a_sls"] = struct([field(1, "default", SET(L(SET(T("i64"))))), field(2, "default", L(M(T("i32"), SET(T("i16")))))])
    defs["Dp2_b_sll"] = struct([field(1, "default", SET(L(L(T("i64"))))), field(2, "default", L(M(T("i32"), L(T("i16")))))])
    # containers of containers
    defs["Deep"] = struct([field(1, "default", M(T("string"), L(SET(T("i64"))))),
                           field(2, "default", L(M(T("i32"), L(T("string"))))),
                           field(3, "optional", L(L(L(T("binary"))))),
                           field(4, "default", M(T("i16"), M(T("string"), ST("Leaf", True))))])
    # recursive shapes
    defs["Rec"] = struct([field(1, "default", T("i32")), field(2, "optional", ST("Rec", True)),
                          field(3, "default", L(ST("Rec", True))), field(4, "default", M(T("string"), ST("Rec", True)))])
    defs["RecK"] = struct([field(1, "default", T("i8")), field(2, "optional", M(ST("RecK", True), T("i32")))])
    return with_defaults(defs)


def merge(*us):
    out = {}
    for u in us:
        out.update(u)
    return out


# ---- random type universes -----------------------------------------------------------------
def rand_type(rng, structs, depth, allow_ptr_scalar=False, key=False):
    if key:
        k = rng.choice(SCALARS + (["*struct"] if structs else []))
        return ST(rng.choice(structs), True) if k == "*struct" else T(k)
    r = rng.random()
    if depth <= 0 or r < 0.45:
        k = rng.choice(SCALARS + ["binary"])
        return T(k, allow_ptr_scalar and k != "binary" and rng.random() < 0.7)
    if r < 0.6 and structs:
        return ST(rng.choice(structs), rng.random() < 0.7)
    if r < 0.8:
        return (L if rng.random() < 0.6 else SET)(rand_type(rng, structs, depth - 1))
    return M(rand_type(rng, structs, 0, key=True), rand_type(rng, structs, depth - 1))


def rand_universe(rng, nstructs=12, maxfields=8, prefix="R"):
    defs = {}
    names = []
    for n in range(nstructs):
        name = "%s%d" % (prefix, n)
        init = rng.random() < 0.3
        nf = rng.randrange(1, maxfields + 1)
        ids = sorted(rng.sample([0, 1, 2, 3, 4, 5, 6, 7, 8, 9, 10, 11, 12, 63, 64, 65, 127, 128, 255, 256, 1000, 32767, 32768, 65534], nf))
        rng.shuffle(ids)
        fs = []
        for fid in ids:
            req = rng.choice(["required", "default", "optional"])
            t = rand_type(rng, names, 2, allow_ptr_scalar=(req == "optional"))
            if t["k"] == "struct" and not t["ptr"] and t["s"] == name:
                t["ptr"] = True
            f = field(fid, req, t)
            fs.append(f)
        defs[name] = struct(fs, init=init, unk=rng.random() < 0.3)
        names.append(name)
    with_defaults(defs)
    # some non-zero declared defaults
    for s, d in defs.items():
        if d["init"]:
            for f in d["fields"]:
                if not f["t"].get("ptr") and f["t"]["k"] in SCALARS + ["binary"] and rng.random() < 0.6:
                    f["def"] = rand_value(f["t"], defs, rng, 1)
                    if f["t"]["k"] == "binary" and f["def"]["nil"]:
                        f["def"] = {"nil": False, "b": [9]}
    return defs
