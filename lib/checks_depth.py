"""C15: nesting depth.  The driver synthesises messages nested d repetitions deep for each
nesting pattern over recursive types, probes a list of depths up to 10^6 and bisects the
acceptance threshold; the trace specification requires acceptance up to 48 levels, a
depth-limit protocol error beyond the implementation's bound, a downward-closed accepted set
and no crash.  Small messages travel with their bytes and are fully re-judged (so the
synthesis itself is checked against the reference decoder)."""
import suite
from suite import Batch
import universe as U
from universe import T, L, M, ST, field, struct

ASSUME = [
    "a level is one struct or one container; the top-level struct counts as level 1 (spec/Thrift.tla SkipD)",
    "the child runs with debug.SetMaxStack(64 MiB): unbounded recursion on a deep message is a fatal stack overflow, recorded as a crash",
    "messages longer than 700 bytes are judged by their declared depth only (the synthesis is validated against the reference decoder on the short ones)",
]
RULE = ("nesting patterns struct / list / map value / map key (known positions, recursive types) and struct / list / map inside an unknown field x "
        "depths {1..50, 60..70, 100, 255, 256, 300, 510..514, 600, 1022..1025, 2000, 10^4, 10^5, 10^6} plus bisection of the acceptance threshold; "
        "distinct = distinct (pattern, depth) probes")


def depth_universe():
    defs = {}
    defs["Re"] = struct([field(1, "default", T("i32")), field(2, "optional", ST("Re", True)),
                         field(3, "default", L(ST("Re", True))), field(4, "default", M(T("string"), ST("Re", True)))])
    defs["ReK"] = struct([field(1, "default", T("i8")), field(2, "optional", M(ST("ReK", True), T("i32")))])
    defs["ReU"] = struct([field(1, "default", T("i32")), field(2, "optional", ST("ReU", True))], unk=True)
    return U.with_defaults(defs)


def run(prop, tier, seed, work):
    res = suite.Result(prop, tier, seed)
    quick = tier == "quick"
    defs = depth_universe()
    small = list(range(1, 51)) + list(range(60, 71))
    big = [100, 255, 256, 300, 510, 511, 512, 513, 514, 600, 1022, 1023, 1024, 1025, 2000, 10000, 100000, 1000000]
    if not quick:
        big += [3000, 5000, 30000, 300000, 2000000]
        small = list(range(1, 130))
    scen = []
    plans = [("Re", "struct"), ("Re", "list"), ("Re", "mapval"), ("ReK", "mapkey"),
             ("Re", "ustruct"), ("Re", "ulist"), ("Re", "umap"), ("ReU", "ustruct"), ("ReU", "struct"), ("ReU", "ulist")]
    for ty, pat in plans:
        sid = "C15-%s-%s" % (ty, pat)
        scen.append({"sid": sid, "prop": prop, "vals": [], "tags": [pat], "dkey": sid,
                     "steps": [{"op": "deep", "ty": ty, "pattern": pat, "depths": small + big, "bisect": True}]})
    # mixtures: k repetitions of one pattern above the probed one (the budget is spent at different
    # rates by different kinds of levels, so a skipped zero shows only for some prefixes)
    mixes = [("struct", "list"), ("struct", "mapval"), ("list", "struct"), ("mapval", "list"), ("list", "mapval"), ("struct", "ulist"), ("ustruct", "ulist")]
    mdepths = [1, 2, 10, 20, 23, 24, 30, 40, 100, 250, 255, 256, 300, 500, 510, 511, 512, 600, 1000, 1500, 3000, 100000]
    for (pfx, pat) in mixes:
        for pre in (range(1, 16) if not quick else (1, 2, 3, 4, 5)):
            sid = "C15-mix-%s*%d+%s" % (pfx, pre, pat)
            scen.append({"sid": sid, "prop": prop, "vals": [], "tags": ["mix"], "dkey": sid,
                         "steps": [{"op": "deep", "ty": "Re", "prefix": pfx, "pre": pre, "pattern": pat, "depths": mdepths, "bisect": True}]})
    # deep known nesting with a shallow unknown container at the bottom, all inside the 48 levels that are always accepted
    for (pfx, pat) in (("struct", "ulist"), ("struct", "ustruct"), ("struct", "umap"), ("list", "ulist"), ("mapval", "ustruct")):
        for pre in (10, 15, 20, 22):
            sid = "C15-bottom-%s*%d+%s" % (pfx, pre, pat)
            scen.append({"sid": sid, "prop": prop, "vals": [], "tags": ["unknown-at-the-bottom"], "dkey": sid,
                         "steps": [{"op": "deep", "ty": "Re", "prefix": pfx, "pre": pre, "pattern": pat, "depths": [1, 2, 3], "bisect": False}]})
    # shallow but wide: 3 levels, many entries - always accepted whatever the size
    wides = [1, 100, 1000, 1021, 1022, 1023, 1024, 1100, 2047, 2048, 5000, 70000]
    for ty, pat in (("Re", "widelist"), ("Re", "widemap"), ("Re", "wideulist"), ("ReU", "wideulist")):
        sid = "C15-%s-%s" % (ty, pat)
        scen.append({"sid": sid, "prop": prop, "vals": [], "tags": ["wide"], "dkey": sid,
                     "steps": [{"op": "deep", "ty": ty, "pattern": pat, "depths": wides, "bisect": False}]})
    suite.run_batches(res, work, [Batch("deep", defs, scen, maxstack=64 << 20)])
    res.distinct = set(range(res.lines))
    return suite.finish(res, RULE, ASSUME)
