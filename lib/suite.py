"""Generic "scenario suite" runner shared by the per-property checks: build the driver for a
universe, run scenarios, have TLC judge the trace, filter by property, apply the
known-findings list, write replay files and evidence."""
import json
import os
import sys
import time

import vlib
import universe as U


class Batch:
    """one universe (Defs) and the scenarios that run against it"""

    def __init__(self, name, defs, scenarios, env=None, race=False, maxstack=0, records=None):
        self.name, self.defs, self.scenarios = name, defs, scenarios
        self.env, self.race, self.maxstack = env, race, maxstack
        # records: a trace assembled by the orchestrator from observations of earlier batches (cross-environment
        # comparisons); nothing is executed for it.  After a batch ran, its own records are kept here.
        self.records = records


class Result:
    def __init__(self, prop, tier, seed):
        self.prop, self.tier, self.seed = prop, tier, seed
        self.t0 = time.time()
        self.violations = []      # (signature set, replay path, text)
        self.known_hits = {}      # signature -> count
        self.other = {}           # property -> count of rejections of other properties' clauses
        self.lines = 0
        self.scenarios = 0
        self.states = 0
        self.transitions = 0
        self.tlc_states = 0       # states of exhaustive / generator TLC runs
        self.tlc_transitions = 0
        self.samples = []
        self.distinct = set()
        self.notes = []
        self.extra = {}
        self.machinery = None
        self.classes = {}         # class of case (as computed by the spec) -> lines


def sig_of_rejection(rej, scen, defs):
    """Signatures identifying a rejection for the known-findings list: the clause, the entry
    point and the tags the generator attached to the scenario (specific shapes / inputs)."""
    sigs = set()
    tags = scen.get("tags", []) if scen else []
    for c in rej["clauses"]:
        sigs.add("%s:%s" % (rej["ev"], c))
        for t in tags:
            sigs.add("%s:%s:%s" % (rej["ev"], c, t))
    return sigs


def run_batches(res, work, batches, clause_filter=None, nshards=None, want_props=None):
    """Runs every batch; collects rejections relevant for res.prop."""
    known = vlib.load_known()
    want = want_props or {res.prop}
    # replay files of earlier runs of this property are stale
    rd = os.path.join(vlib.OUT, "replay")
    if os.path.isdir(rd) and not os.environ.get("VERIF_NO_REPLAY_WRITE") and not getattr(res, "_cleaned", False):
        for f in os.listdir(rd):
            if f.startswith(res.prop + "-"):
                os.remove(os.path.join(rd, f))
        res._cleaned = True
    for b in batches:
        if not b.scenarios:
            continue
        t0 = time.time()
        if b.records is not None:
            defs_path = vlib.write_defs(work, b.defs)
            records = b.records
            t1 = t2 = time.time()
        else:
            binp, defs_path = vlib.build_driver(work, b.defs, race=b.race)
            t1 = time.time()
            records = vlib.run_driver(work, binp, defs_path, b.scenarios, env=b.env, maxstack=b.maxstack)
            b.records = records
            t2 = time.time()
        rejections, st = vlib.judge(work, defs_path, records, nshards=nshards)
        t3 = time.time()
        res.notes.append("batch %s: %d scenarios, %d lines; build %.1fs, driver %.1fs, TLC judge %.1fs (%d shards)" % (
            b.name, len(b.scenarios), st["lines"], t1 - t0, t2 - t1, t3 - t2, st.get("shards", 0)))
        if os.environ.get("VERIF_VERBOSE"):
            print(res.notes[-1], file=sys.stderr)
        res.lines += st["lines"]
        res.states += st["states"]
        res.transitions += st["transitions"]
        res.scenarios += len(b.scenarios)
        for k, v in st.get("classes", {}).items():
            res.classes[k] = res.classes.get(k, 0) + v
        by_sid = {sc["sid"]: sc for sc in b.scenarios}
        for sc in b.scenarios:
            res.distinct.add(sc.get("dkey", sc["sid"]))
        if len(res.samples) < 3 and b.scenarios:
            sc = b.scenarios[min(len(b.scenarios) - 1, 1 + len(res.samples) * 7)]
            res.samples.append(shorten({"batch": b.name, "scenario": sc}))
        for rej in rejections:
            props = set(rej["props"])
            if not (props & want):
                for p in props:
                    res.other[p] = res.other.get(p, 0) + 1
                if "DRIFT" in props and len(res.notes) < 40:
                    res.notes.append("MODEL-DRIFT: %s step %s %s: recorded instrumentation events differ from the layer-B model (%s); not a verdict" % (
                        rej["sid"], rej["step"], rej["ev"], ",".join(rej["clauses"])))
                continue
            scen = by_sid.get(rej["sid"])
            sigs = sig_of_rejection(rej, scen, b.defs)
            k = vlib.match_known(known, res.prop, sigs)
            if k is not None:
                res.known_hits.setdefault(k["signature"], [0, k])[0] += 1
                continue
            payload = {"property": res.prop, "clauses": rej["clauses"], "defs": prune_defs(b.defs, scen),
                       "scenario": scen, "observed": shorten(rej["line"], 4000), "env": b.env, "race": b.race,
                       "signatures": sorted(sigs), "why": rej.get("why", [])}
            path = vlib.write_replay(res.prop, "%s-%s" % (rej["sid"], "+".join(sorted(rej["clauses"]))), payload)
            res.violations.append((sigs, path, "%s step %s %s clauses=%s tags=%s why=%s" % (
                rej["sid"], rej["step"], rej["ev"], ",".join(rej["clauses"]), ",".join(scen.get("tags", [])) if scen else "",
                "/".join(rej.get("why", [])))))
    return res


def prune_defs(defs, scen):
    """only the structs reachable from the types the scenario uses"""
    if not scen:
        return defs
    need, todo = set(), [st.get("ty") for st in scen["steps"] if st.get("ty")]

    def walk(t):
        if t["k"] == "struct":
            todo.append(t["s"])
        for kk in ("e", "kt", "vt"):
            if kk in t and t[kk]:
                walk(t[kk])
    while todo:
        s = todo.pop()
        if s in need or s not in defs:
            continue
        need.add(s)
        for f in defs[s]["fields"]:
            walk(f["t"])
    return {s: defs[s] for s in need}


def shorten(obj, limit=1500):
    s = json.dumps(obj)
    if len(s) <= limit:
        return obj
    return {"truncated_json": s[:limit] + "..."}


def finish(res, rule, assumptions, exhaustive=False):
    """print verdict lines, write evidence, return exit code"""
    wall = time.time() - res.t0
    for sig, (n, k) in sorted(res.known_hits.items()):
        print("KNOWN-FINDING: property=%s %s (signature %s, %d occurrences this run)" % (
            res.prop, k.get("what", ""), sig, n))
    seen = set()
    nviol = 0
    for sigs, path, text in res.violations:
        nviol += 1
        if nviol <= 25:
            print("VIOLATION property=%s replay=%s" % (res.prop, path))
            print("  " + text)
    if os.environ.get("VERIF_VERBOSE"):
        import collections, re
        c = collections.Counter()
        for sigs, path, text in res.violations:
            parts = text.split()
            sid = re.sub(r"-rnd-(\w+?)-\d+$", r"-rnd-\1", parts[0])
            sid = re.sub(r"-[^-]*=\d+-\d+$", "-var", sid)
            c[(sid, parts[3], parts[4])] += 1
        for k, n in c.most_common(60):
            print("  SUMMARY %5d %s" % (n, " ".join(k)), file=sys.stderr)
    cov = {
        "states": max(1, res.states + res.tlc_states),
        "transitions": max(1, res.transitions + res.tlc_transitions),
        "traces_validated_against_impl": res.scenarios,
        "trace_lines_judged": res.lines,
        "evaluations": res.lines,
        "distinct_nontrivial": len(res.distinct),
        "rule": rule,
        "samples": res.samples or [{"note": "no scenario sample"}],
        "exhaustive": exhaustive,
        "known_finding_hits": {s: n for s, (n, k) in res.known_hits.items()},
        "rejections_of_other_properties": res.other,
        "notes": res.notes,
        "case_classes_by_spec": res.classes,
    }
    cov.update(res.extra)
    vlib.write_evidence(res.prop, res.tier, res.seed, cov, wall, nviol, assumptions)
    print("%s %s: %d scenarios, %d trace lines judged by TLC, %d violations, %d known-finding hits, %.1fs" % (
        res.prop, res.tier, res.scenarios, res.lines, nviol, sum(n for n, _ in res.known_hits.values()), wall))
    return 1 if nviol else 0
