"""C17 (legacy JIT controls are inert) and C18 (encoding is allocation-free after first use)."""
import random

import universe as U
import suite
import checks_codec
from suite import Batch

ENVS = [
    {},
    {"FRUGAL_MAX_INLINE_DEPTH": "0x10", "FRUGAL_MAX_INLINE_IL_SIZE": "0x400"},        # hexadecimal spelling; 1024 is also a field id of the universe
    {"FRUGAL_MAX_INLINE_DEPTH": "2"},                                                # smallest valid depth
    {"FRUGAL_MAX_INLINE_DEPTH": "0b101", "FRUGAL_MAX_INLINE_IL_SIZE": "60_000"},     # binary, digit separators
    {"FRUGAL_MAX_INLINE_DEPTH": "3", "FRUGAL_MAX_INLINE_IL_SIZE": "257"},            # smallest valid IL size
    {"FRUGAL_MAX_INLINE_DEPTH": "1000", "FRUGAL_MAX_INLINE_IL_SIZE": "0o2000"},      # octal
    {"FRUGAL_MAX_INLINE_IL_SIZE": "1000000"},
]
LEGACY = ["Pretouch", "PretouchOpts", "PretouchValue", "PretouchStruct", "PretouchOdd", "NoJIT", "SetMaxInlineDepth", "SetMaxInlineILSize", "GetStats"]

ASSUME17 = [
    "that no result depends on a legacy control is stated structurally (spec/Api.tla: no J* operator reads cfg); conformance: the same clauses judge every call under every environment and placement",
    "valid environment values are those the init parser accepts (> 1 for the depth, > 256 for the IL size)",
]
RULE17 = ("environment settings (unset, smallest valid, default-like, large, hexadecimal spelling) for both variables x placements (before first use of a type, "
          "between calls, after) of legacy calls (Pretouch on accepted, rejected and non-struct types with and without options, NoJIT, the two setters, GetStats) x "
          "codec scenarios on private copies of a sample of the type space; one child process per environment; distinct = distinct (environment, scenario)")


def run17(prop, tier, seed, work):
    res = suite.Result(prop, tier, seed)
    rng = random.Random(seed * 2713 + 13)
    quick = tier == "quick"
    batches = []
    for ei, env in enumerate(ENVS if not quick else ENVS[:4]):
        uf = U.universe_fields()
        # an invalid type for Pretouch
        uf["BadP"] = U.struct([U.field(1, "default", U.T("i32")),
                               {"id": 2, "key": "2", "req": "default", "t": {"k": "i32", "ptr": False, "gotype": "uint32"}, "nocopy": False,
                                "name": list(b"F2"), "rawtag": 'frugal:"2,default"', "opaque": True}])
        uf["BadP"]["invalid"] = True
        # accepted types whose InitDefault is declared in an unusual way (value receiver: a no-op on a copy; extra parameters: not
        # the initialiser interface at all): the codec treats both as types without declared defaults, Pretouch accepts them
        uf["OddInitV"] = U.struct([U.field(1, "default", U.T("i32")), U.field(2, "optional", U.T("string", True)), U.field(3, "default", U.ST("Leaf", True))])
        uf["OddInitV"]["extra_decl"] = ["func (p OddInitV) InitDefault() { p.F1 = 7 }"]
        uf["OddInitS"] = U.struct([U.field(1, "default", U.T("i64")), U.field(2, "default", U.L(U.T("string")))])
        uf["OddInitS"]["extra_decl"] = ["func (p *OddInitS) InitDefault(x ...int) { p.F1 = 9 }"]
        uf["OddNest"] = U.struct([U.field(1, "default", U.ST("OddInitV", True)), U.field(2, "default", U.L(U.ST("OddInitS", True)))])
        # private cyclic graphs that reach an unsupported member: BA{*BB,*Bd}, BB{*BA}, BC{*BB}
        ncyc = 6
        for c in range(ncyc):
            bad = {"id": 2, "key": "2", "req": "default", "t": {"k": "i32", "ptr": False, "gotype": "uint32"}, "nocopy": False,
                   "name": list(b"F2"), "rawtag": 'frugal:"2,default"', "opaque": True}
            uf["Bd%d" % c] = U.struct([U.field(1, "default", U.T("i32")), bad])
            uf["BA%d" % c] = U.struct([U.field(1, "default", U.ST("BB%d" % c, True)), U.field(2, "default", U.ST("Bd%d" % c, True))])
            uf["BB%d" % c] = U.struct([U.field(1, "default", U.ST("BA%d" % c, True))])
            uf["BC%d" % c] = U.struct([U.field(1, "default", U.ST("BB%d" % c, True))])
            for x in ("Bd", "BA", "BB", "BC"):
                uf["%s%d" % (x, c)]["invalid"] = True
        # a type with nocopy fields: the views must stay views whatever NoJIT / the options say
        uf["NCv"] = U.struct([U.field(1, "default", U.T("string"), nocopy=True), U.field(2, "default", U.T("binary"), nocopy=True),
                              U.field(3, "default", U.T("string")), U.field(4, "optional", U.T("string", True), nocopy=True)])
        U.with_defaults({k2: v2 for k2, v2 in uf.items() if not v2.get("invalid")})
        names = [s for s in sorted(uf.keys()) if not uf[s].get("invalid") and s != "NCv"]
        scen = []
        # the very first calls of the process: in every other environment a control is called before the container types
        # are built; values as the decoder hands them out (non-canonical bool bytes); outputs compared across environments
        first_call = [None, "NoJIT", "SetMaxInlineDepth", "PretouchOpts", "NoJIT", "GetStats"][ei % 6]
        bm0 = [13, 0, 1, 11, 2, 0, 0, 0, 1, 0, 0, 0, 1, 107, 2,  13, 0, 2, 2, 8, 0, 0, 0, 1, 2, 0, 0, 0, 7,  15, 0, 3, 2, 0, 0, 0, 2, 2, 1,
               2, 0, 4, 3,  13, 0, 5, 8, 2, 0, 0, 0, 1, 0, 0, 0, 9, 255,  14, 0, 6, 2, 0, 0, 0, 1, 128,  0]
        uf["BmFirst"] = U.struct([U.field(1, "default", U.M(U.T("string"), U.T("bool"))), U.field(2, "default", U.M(U.T("bool"), U.T("i32"))),
                                  U.field(3, "default", U.L(U.T("bool"))), U.field(4, "default", U.T("bool")), U.field(5, "default", U.M(U.T("i32"), U.T("bool"))),
                                  U.field(6, "default", U.SET(U.T("bool")))])
        U.with_defaults({"BmFirst": uf["BmFirst"]})
        fsteps = ([{"op": "legacy", "call": first_call, "ty": "", "arg": 1}] if first_call else []) + \
            [{"op": "decode", "ty": "BmFirst", "in": bm0, "dest": "fresh"}]
        fsteps.append({"op": "encode", "ty": "BmFirst", "obj": len(fsteps) - 1, "raw": True, "buf": {"mode": "rel", "n": 0, "extra": 0}})
        scen.append({"sid": "C17-e%d-first" % ei, "prop": prop, "vals": [], "steps": fsteps, "tags": ["first-calls"], "dkey": "C17-e%d-first" % ei})
        for c in range(ncyc):
            calls = [["Pretouch", "BA"], ["PretouchOpts", "BA"], ["PretouchValue", "BB"], ["Pretouch", "Bd"], ["NoJIT", "BA"], ["PretouchValue", "BA"]][c]
            steps = [{"op": "legacy", "call": calls[0], "ty": "%s%d" % (calls[1], c), "arg": 1},
                     {"op": "reject", "ty": "BC%d" % c, "entry": ["encode", "decode", "size"][c % 3], "arg": "ptr", "class": "pretouched-cycle", "repeat": 2},
                     {"op": "legacy", "call": "Pretouch", "ty": "BC%d" % c, "arg": 0},
                     {"op": "reject", "ty": "BA%d" % c, "entry": "encode", "arg": "ptr", "class": "pretouched-cycle", "repeat": 1},
                     {"op": "reject", "ty": "BC%d" % c, "entry": "encode", "arg": "val", "class": "pretouched-cycle", "repeat": 1}]
            sid = "C17-e%d-cycle-%d" % (ei, c)
            scen.append({"sid": sid, "prop": prop, "vals": [], "steps": steps, "tags": ["cycle"], "dkey": sid})
        # nocopy views after each legacy control
        ncmsg = [11, 0, 1, 0, 0, 0, 3, 97, 98, 99, 11, 0, 2, 0, 0, 0, 2, 1, 2, 11, 0, 3, 0, 0, 0, 2, 120, 121, 11, 0, 4, 0, 0, 0, 4, 119, 120, 121, 122, 0]
        for c, call in enumerate(LEGACY):
            steps = [{"op": "legacy", "call": call, "ty": "NCv", "arg": 1},
                     {"op": "decode", "ty": "NCv", "in": ncmsg, "dest": "fresh"}, {"op": "walk", "objs": [1]},
                     {"op": "overwrite", "obj": 1, "byte": 255}, {"op": "recheck", "obj": 1, "after": "overwrite"}]
            sid = "C17-e%d-nocopy-%s" % (ei, call)
            scen.append({"sid": sid, "prop": "C14", "vals": [], "steps": steps, "tags": ["nocopy"], "dkey": sid})
        # the same first use, decode and re-encode before and after each control, on two types with one schema: the outputs
        # agree byte for byte (values as a caller gets them from the decoder, here with non-canonical bool bytes)
        bmsg = [13, 0, 1, 11, 2, 0, 0, 0, 1, 0, 0, 0, 1, 107, 2,  13, 0, 2, 2, 8, 0, 0, 0, 1, 2, 0, 0, 0, 7,  15, 0, 3, 2, 0, 0, 0, 2, 2, 1,
                2, 0, 4, 3,  13, 0, 5, 8, 2, 0, 0, 0, 1, 0, 0, 0, 9, 255,  14, 0, 6, 2, 0, 0, 0, 1, 128,  0]
        for ci, call in enumerate(LEGACY):
            na, nb = "Bm%d_%da" % (ei, ci), "Bm%d_%db" % (ei, ci)
            for nme in (na, nb):
                uf[nme] = U.struct([U.field(1, "default", U.M(U.T("string"), U.T("bool"))), U.field(2, "default", U.M(U.T("bool"), U.T("i32"))),
                                    U.field(3, "default", U.L(U.T("bool"))), U.field(4, "default", U.T("bool")), U.field(5, "default", U.M(U.T("i32"), U.T("bool"))),
                                    U.field(6, "default", U.SET(U.T("bool")))])
                U.with_defaults({nme: uf[nme]})
            steps = [{"op": "decode", "ty": na, "in": bmsg, "dest": "fresh"},
                     {"op": "encode", "ty": na, "obj": 0, "raw": True, "buf": {"mode": "rel", "n": 0, "extra": 0}},
                     {"op": "legacy", "call": call, "ty": nb if ci % 2 else "", "arg": 1},
                     {"op": "decode", "ty": nb, "in": bmsg, "dest": "fresh"},
                     {"op": "encode", "ty": nb, "obj": 3, "raw": True, "buf": {"mode": "rel", "n": 0, "extra": 0}},
                     {"op": "cmpout", "a": 1, "b": 4},
                     {"op": "legacy", "call": "NoJIT", "ty": "", "arg": 0}]
            sid = "C17-e%d-beforeafter-%s" % (ei, call)
            scen.append({"sid": sid, "prop": prop, "vals": [], "steps": steps, "tags": ["before-after", call], "dkey": sid})
        for oi, s in enumerate(("OddInitV", "OddInitS", "OddNest")):
            v = U.base_value({"k": "struct", "ptr": False, "s": s}, uf, 2, 3)
            steps = [{"op": "legacy", "call": ["Pretouch", "PretouchValue", "PretouchOpts"][(oi + ei) % 3], "ty": s, "arg": 1},
                     {"op": "size", "ty": s, "v": 0}, {"op": "encode", "ty": s, "v": 0, "buf": {"mode": "rel", "n": 0, "extra": 0}},
                     {"op": "decode", "ty": s, "from": 2, "dest": "fresh", "orig": 0},
                     {"op": "legacy", "call": "Pretouch", "ty": s, "arg": 0}, {"op": "legacy", "call": "PretouchValue", "ty": s, "arg": 0}]
            sid = "C17-e%d-oddinit-%s" % (ei, s)
            scen.append({"sid": sid, "prop": prop, "vals": [v], "steps": steps, "tags": ["odd-initialiser"], "dkey": sid})
        # Pretouch given a pointer to an object the caller keeps using: by-value calls with other values of the type must
        # not reach it
        for s in names[:12]:
            vs = [v for (_, v) in U.struct_variants(s, uf, [0, 1, 2], [0, 1, 5])][:3]
            if len(vs) < 2:
                continue
            steps = [{"op": "legacy", "call": "PretouchObj", "ty": s, "v": 0},
                     {"op": "size", "ty": s, "v": 1, "byval": True},
                     {"op": "encode", "ty": s, "v": 1, "byval": True, "buf": {"mode": "rel", "n": 0, "extra": 0}},
                     {"op": "recheck", "obj": 0, "after": "byval-calls"},
                     {"op": "encode", "ty": s, "v": len(vs) - 1, "byval": True, "buf": {"mode": "rel", "n": 0, "extra": 0}},
                     {"op": "size", "ty": s, "v": 0},
                     {"op": "recheck", "obj": 0, "after": "byval-calls"}]
            sid = "C17-e%d-pretouchobj-%s" % (ei, s)
            scen.append({"sid": sid, "prop": prop, "vals": vs, "steps": steps, "tags": ["pretouch-object"], "dkey": sid})
        # nesting-depth behaviour is part of "no effect on behaviour": probed here, compared across environments below
        for pat in ("struct", "list", "mapval"):
            sid = "C17-e%d-deep-%s" % (ei, pat)
            scen.append({"sid": sid, "prop": prop, "vals": [], "tags": ["deep", pat], "dkey": sid,
                         "steps": [{"op": "deep", "ty": "Rec", "pattern": pat, "depths": [1, 10, 48, 100, 300, 511, 512, 600, 1023, 1024, 1500, 3000, 20000], "bisect": True}]})
        k = 0
        for s in names:
            vs = list(U.struct_variants(s, uf, [0, 1, 2], [0, 1, 5]))
            rng.shuffle(vs)
            for (lbl, v) in vs[: (4 if quick else 40)]:
                k += 1
                steps = []

                def leg():
                    c = rng.choice(LEGACY)
                    ty = rng.choice([s, "BadP", "", "Leaf"])
                    st = {"op": "legacy", "call": c, "ty": ty, "arg": rng.choice([0, 1, 2, 7, 300, 100000])}
                    if c.startswith("SetMax") and rng.random() < 0.5:
                        # the whole int range: the setters return their argument
                        st["argstr"] = str(rng.choice([-1, -2 ** 31, 2 ** 31 - 1, 2 ** 31, 2 ** 32, 2 ** 32 + 5, -2 ** 32, 2 ** 40 + 3, 2 ** 63 - 1, -2 ** 63, 65536, 2 ** 16 - 1]))
                    if c == "PretouchOpts" and rng.random() < 0.7:
                        # any subset of the option constructors, any order, any values (also repeated ones)
                        names = ["inline", "ilsize", "pretouch", rng.choice(["inline", "pretouch", "ilsize"])]
                        rng.shuffle(names)
                        st["opts"] = [[nm, rng.choice([-1, 0, 1, 2, 3, 5, 8, 64, 1000, 100000])] for nm in names[: rng.randrange(1, 5)]]
                    return st
                place = k % 4
                if place in (0, 3):
                    steps.append(leg())
                steps.append({"op": "size", "ty": s, "v": 0})
                if place in (1, 3):
                    steps.append(leg())
                steps.append({"op": "encode", "ty": s, "v": 0, "byval": bool(k % 2), "buf": {"mode": "rel", "n": 0, "extra": 4}})
                if place in (2, 3):
                    steps.append(leg())
                ei_enc = len(steps) - (2 if place in (2, 3) else 1)
                steps.append({"op": "decode", "ty": s, "from": ei_enc, "dest": "fresh", "orig": 0})
                steps.append(leg())
                tags = checks_codec.struct_tags(s, v, uf)
                if "nil_struct_with_required_fields" in tags:
                    steps = [st for st in steps if st.get("op") != "decode"]
                sid = "C17-e%d-%s-%s-%d" % (ei, s, lbl, k)
                scen.append({"sid": sid, "prop": prop, "vals": [v], "steps": steps, "tags": tags, "dkey": sid})
        batches.append(Batch("env%d" % ei, uf, scen, env=env, maxstack=64 << 20))
    want = {"C17", "C01", "C02", "C04", "C16", "C03", "C13", "C14", "C06", "C15"}
    suite.run_batches(res, work, batches, want_props=want)
    # the same probes in every environment: identical outcomes (judged by the specification: Api!JEnvCmp)
    envs = []
    for ei, b in enumerate(batches):
        sig = sorted("%s/%s/%s" % (r.get("pattern"), r.get("d"), r.get("obs", {}).get("out")) for r in (b.records or []) if r.get("ev") == "Deep")
        envs.append({"env": "env%d" % ei, "sig": sig})
    envs2 = []
    for ei, b in enumerate(batches):
        sig = ["%s" % r.get("obs", {}).get("bytes") for r in (b.records or []) if r.get("ev") == "EncodeRaw" and r.get("sid", "").endswith("-first")]
        envs2.append({"env": "env%d" % ei, "sig": sig})
    cmp_records = [{"ev": "Scenario", "scen": 0, "sid": "C17-envcmp-deep", "prop": prop, "vals": []},
                   {"scen": 0, "sid": "C17-envcmp-deep", "step": 0, "ev": "EnvCmp", "kind": "deep", "obs": {"out": "ok", "envs": envs}},
                   {"scen": 0, "sid": "C17-envcmp-deep", "step": 1, "ev": "EnvCmp", "kind": "first-bytes", "obs": {"out": "ok", "envs": envs2}}]
    cmp_scen = [{"sid": "C17-envcmp-deep", "prop": prop, "vals": [], "steps": [{"op": "envcmp"}], "tags": ["cross-environment"], "dkey": "envcmp-deep"}]
    suite.run_batches(res, work, [Batch("envcmp", {"Leaf": uf["Leaf"]}, cmp_scen, records=cmp_records)], want_props=want)
    res.extra["environments"] = ENVS
    return suite.finish(res, RULE17, ASSUME17)


ASSUME18 = [
    "allocations are runtime.MemStats.Mallocs deltas over 100 calls in a single-goroutine child (GOMAXPROCS=1, GC disabled during the measurement), after one warm-up call; fewer than 100 mallocs per 100 calls counts as allocation-free",
    "says nothing about speed",
]
RULE18 = ("every (struct type, value) of the codec universes (all scalar kinds and requiredness, all 9x16 map key/value forms, 2x16 list/set forms, nested containers, "
          "by-value and pointer structs, holders with retained bytes, recursive types) x container sizes: mallocs of 100 EncodedSize and 100 EncodeObject calls on a pointer; "
          "distinct = distinct (type, value)")


def run18(prop, tier, seed, work):
    res = suite.Result(prop, tier, seed)
    rng = random.Random(seed * 1009 + 3)
    quick = tier == "quick"
    sizes = [0, 1, 9, 256] if quick else [0, 1, 9, 28, 110, 255, 256, 300, 1000]
    batches = []

    def lengthen(t, v, n, defs, depth=3):
        """the same value with every string / binary inside it (elements, keys, values, nested) at least n bytes long"""
        if t.get("ptr"):
            return v if v.get("p") == 0 else {"p": 1, "v": lengthen(dict(t, ptr=False), v["v"], n, defs, depth)}
        k = t["k"]
        if k == "string":
            return v + [97 + (i % 26) for i in range(max(0, n - len(v)))]
        if k == "binary":
            return v if v.get("nil") else {"nil": False, "b": v["b"] + [65 + (i % 26) for i in range(max(0, n - len(v["b"])))]}
        if k in ("list", "set"):
            return dict(v, items=[lengthen(t["e"], x, n, defs, depth) for x in v["items"]])
        if k == "map":
            return dict(v, ents=[[lengthen(t["kt"], a, n, defs, depth), lengthen(t["vt"], b, n, defs, depth)] for a, b in v["ents"]])
        if k == "struct" and depth > 0:
            byk = {f["key"]: f for f in defs[t["s"]]["fields"]}
            return {"f": {key: lengthen(byk[key]["t"], x, n, defs, depth - 1) for key, x in v["f"].items()}, "unk": v["unk"]}
        return v

    def scen_for(defs, structs, sizes, strlens):
        out = []
        prev = None
        for s in structs:
            vs = list(U.struct_variants(s, defs, sizes, strlens))
            # long strings / binaries in every position (elements, keys, map values), not only as fields
            st = {"k": "struct", "ptr": False, "s": s}
            for n in (33, 300):
                vs.append(("long%d" % n, lengthen(st, vs[0][1], n, defs)))
            for label, v in vs:
                sid = "C18-%s-%s" % (s, label)
                out.append({"sid": sid, "prop": prop, "vals": [v], "tags": [], "dkey": sid,
                            "steps": [{"op": "allocs", "ty": s, "v": 0, "calls": 100}]})
            # two types used alternately, both long since warm
            if prev is not None:
                sid = "C18-alt-%s-%s" % (prev[0], s)
                out.append({"sid": sid, "prop": prop, "vals": [prev[1], vs[0][1]], "tags": ["alternating"], "dkey": sid,
                            "steps": [{"op": "allocs", "ty": prev[0], "v": 0, "calls": 100, "alt": {"ty": s, "v": 1}}]})
            prev = (s, vs[0][1])
        return out
    uf = U.universe_fields()
    batches.append(Batch("fields", uf, scen_for(uf, sorted(uf.keys()), sizes, [0, 1, 300]), env={"GOMAXPROCS": "1"}))
    um = U.merge(U.universe_maps(), U.universe_lists())
    tops = [s for s in sorted(um.keys()) if not s.startswith(("Leaf_", "Fix_"))]
    batches.append(Batch("containers", um, scen_for(um, tops, sizes, [0, 1]), env={"GOMAXPROCS": "1"}))
    if not quick:
        for i in range(8):
            ur = U.rand_universe(rng, nstructs=14)
            sc = []
            names = sorted(ur.keys())
            for j in range(2500):
                s = rng.choice(names)
                v = U.rand_value({"k": "struct", "ptr": False, "s": s}, ur, rng, 4, 5)
                sid = "C18-rnd%d-%s-%d" % (i, s, j)
                sc.append({"sid": sid, "prop": prop, "vals": [v], "tags": [], "dkey": sid,
                           "steps": [{"op": "allocs", "ty": s, "v": 0, "calls": 100}]})
            batches.append(Batch("random%d" % i, ur, sc, env={"GOMAXPROCS": "1"}))
    # enum containers whose elements do not fit 32 bits (the wire carries the low 32 bits; measuring that must stay free)
    eb = {"EnumBig": U.struct([U.field(1, "default", U.L(U.T("enum"))), U.field(2, "default", U.SET(U.T("enum"))), U.field(3, "default", U.M(U.T("enum"), U.T("enum"))),
                               U.field(4, "default", U.T("enum")), U.field(5, "optional", U.T("enum", True))])}
    U.with_defaults(eb)
    bigs = [[0, 0, 0, 0, 128, 0, 0, 0], [255, 255, 255, 0, 0, 0, 0, 0], [0, 0, 1, 0, 0, 0, 0, 5], [127, 255, 255, 255, 255, 255, 255, 255], [0, 0, 0, 0, 0, 0, 0, 7]]
    ebv = {"f": {"1": {"nil": False, "items": bigs}, "2": {"nil": False, "items": bigs[:3]}, "3": {"nil": False, "ents": [[bigs[0], bigs[1]], [bigs[4], bigs[2]]]},
                 "4": bigs[1], "5": {"p": 1, "v": bigs[3]}}, "unk": []}
    batches.append(Batch("enum-big", eb, [{"sid": "C18-enum-beyond-32-bits", "prop": prop, "vals": [ebv], "tags": ["enum-beyond-32-bits"], "dkey": "enum-big",
                                           "steps": [{"op": "allocs", "ty": "EnumBig", "v": 0, "calls": 100}]}], env={"GOMAXPROCS": "1"}))
    # every call sees a larger value than any call before (a string field grows by a few bytes each time)
    gsc = []
    for s in sorted(uf.keys()):
        fs = [f for f in uf[s]["fields"] if f["t"]["k"] == "string" and not f["t"].get("ptr") and "gotype" not in f["t"]]
        if not fs or uf[s].get("invalid"):
            continue
        v = U.base_value({"k": "struct", "ptr": False, "s": s}, uf, 2, 4)
        sid = "C18-grow-%s" % s
        gsc.append({"sid": sid, "prop": prop, "vals": [v], "tags": ["growing-values"], "dkey": sid,
                    "steps": [{"op": "allocs", "ty": s, "v": 0, "calls": 100, "grow": fs[-1]["key"]}]})
    batches.append(Batch("growing", uf, gsc, env={"GOMAXPROCS": "1"}))
    # warm types that share a slot of the descriptor table (the driver picks the pairs among many tiny types), used alternately
    cd = {"Col%d" % k: U.struct([U.field(1, "default", U.T("i32"))]) for k in range(1500 if quick else 5000)}
    U.with_defaults(cd)
    csc = []
    for k in range(8 if quick else 100):
        sid = "C18-collide-%d" % k
        csc.append({"sid": sid, "prop": prop, "vals": [{"f": {"1": [0, 0, 1, 2]}, "unk": []}], "tags": ["slot-collision"], "dkey": sid,
                    "steps": [{"op": "allocs", "collide": True, "calls": 100}]})
    batches.append(Batch("collide", cd, csc, env={"GOMAXPROCS": "1"}))
    suite.run_batches(res, work, batches)
    return suite.finish(res, RULE18, ASSUME18)
