"""C07: results do not depend on call history.  Every call of a long, seeded sequence over a
private copy of a type graph is judged by the same stateless clauses as everywhere else
(spec/Api.tla: no Fail* operator reads used/cfg/ncalls), so any influence of an earlier call
on a later result is a rejected trace line."""
import random
import copy

import universe as U
import suite
import vlib
from suite import Batch
from universe import T, L, SET, M, ST, field, struct

ASSUME = [
    "history independence is stated structurally in spec/Api.tla: the allowed outcomes of a call are a function of its arguments only",
    "sync.Pool reuse is not observable through the public API; sequences run on one goroutine so the per-P pool cache is reused (GOMAXPROCS=1, no GC forced between calls)",
]
RULE = ("seeded random call sequences (length 12..40) over private copies of a type graph (required ids on both sides of presence-set words, holders, "
        "maps of by-value structs, nested and recursive types): decodes that succeed, fail midway (truncated in list / map key / map value / nested struct / "
        "unknown field), miss required fields; encodes and sizes by value and by pointer of different values; distinct = distinct sequences")


def graph(k):
    """one private copy of the type graph; names carry the copy number"""
    n = lambda s: "%s_%d" % (s, k)
    d = {}
    d[n("In")] = struct([field(1, "default", T("i32")), field(2, "optional", T("string", True)), field(64, "optional", L(T("i16"))),
                         field(65, "optional", T("i64", True))])
    d[n("Rq")] = struct([field(1, "required", T("i32")), field(64, "required", T("string")), field(65, "default", T("i8")),
                         field(128, "optional", T("double", True))])
    d[n("Rq2")] = struct([field(1, "default", T("i32")), field(64, "default", T("string")), field(65, "required", T("i8"))])
    d[n("Hd")] = struct([field(1, "default", T("i32")), field(3, "default", ST(n("In"), True))], unk=True)
    d[n("Mp")] = struct([field(1, "default", M(T("string"), ST(n("In"), False))), field(2, "default", M(T("i32"), ST(n("Rq"), True))),
                         field(3, "default", L(ST(n("In"), False))), field(4, "default", M(ST(n("In"), True), T("string"))),
                         field(5, "optional", ST(n("Mp"), True))])
    d[n("Top")] = struct([field(1, "default", ST(n("Mp"), True)), field(2, "default", ST(n("Hd"), False)),
                          field(3, "default", L(ST(n("Rq2"), True)))])
    # all-scalar structs as by-value / pointer elements; the writer (older schema) sends only field 1, so the
    # other fields of every element must read as zero whatever memory the element landed in
    d[n("Fx")] = struct([field(1, "default", T("i32")), field(2, "default", T("i64")), field(3, "default", T("double")), field(4, "default", T("i16"))])
    d[n("FxL")] = struct([field(1, "default", L(ST(n("Fx"), False))), field(2, "default", L(ST(n("Fx"), True))),
                          field(3, "default", M(T("string"), ST(n("Fx"), True))), field(4, "default", M(T("i32"), ST(n("Fx"), False))),
                          field(5, "optional", ST(n("Fx"), True))])
    d[n("Fw")] = struct([field(1, "default", T("i32"))])
    d[n("FwL")] = struct([field(1, "default", L(ST(n("Fw"), False))), field(2, "default", L(ST(n("Fw"), True))),
                          field(3, "default", M(T("string"), ST(n("Fw"), True))), field(4, "default", M(T("i32"), ST(n("Fw"), False))),
                          field(5, "optional", ST(n("Fw"), True))])
    # the same named 64-bit integer type read as an enum by one struct and as a plain i64 by another
    td = "TdI64_%d" % k
    d[n("En")] = struct([field(1, "default", dict(T("enum"), gotype=td, ann=td)), field(2, "default", L(dict(T("enum"), gotype=td, ann=td)))])
    d[n("Ei")] = struct([field(1, "default", dict(T("i64"), gotype=td, ann="i64")), field(2, "default", L(dict(T("i64"), gotype=td, ann="i64")))])
    # nocopy fields next to ordinary strings (what a failed decode of this type leaves in the recycled decoder must not turn
    # the next type's strings into views), and a type with declared defaults met on its own and nested by value
    d[n("Nc")] = struct([field(1, "default", T("string"), nocopy=True), field(2, "default", T("string")), field(3, "default", T("binary"), nocopy=True),
                         field(4, "default", L(T("string")))])
    df = struct([field(1, "optional", T("i32")), field(2, "optional", T("string")), field(3, "default", T("i64"))], init=True)
    df["fields"][0]["def"] = [0, 0, 0, 3]
    df["fields"][1]["def"] = list(b"safe")
    d[n("Df")] = df
    d[n("DfN")] = struct([field(1, "default", ST(n("Df"), False)), field(2, "default", L(ST(n("Df"), False))), field(3, "default", M(T("string"), ST(n("Df"), False))),
                          field(4, "optional", ST(n("Df"), True))])
    # containers of scalar lists: each entry's list is decoded through one recycled slot
    d[n("Ml")] = struct([field(1, "default", M(T("string"), L(T("i64")))), field(2, "default", M(T("i32"), L(T("i32")))), field(3, "default", L(L(T("i16")))),
                         field(4, "default", M(T("string"), SET(T("double"))))])
    # only fixed-size fields plus the holder (every size shortcut applies, the retained bytes still count), alone and as elements
    d[n("FxH")] = struct([field(1, "default", T("i32")), field(2, "required", T("i64")), field(3, "default", T("double"))], unk=True)
    d[n("FxHL")] = struct([field(1, "default", L(ST(n("FxH"), False))), field(2, "default", L(ST(n("FxH"), True))), field(3, "default", ST(n("FxH"), False))])
    # a cycle that reaches an unsupported member: X -> A -> {B, Bad}, B -> A, Y -> B
    bad = {"id": 2, "key": "2", "req": "default", "t": {"k": "i32", "ptr": False, "gotype": "uint32"}, "nocopy": False,
           "name": list(b"F2"), "rawtag": 'frugal:"2,default"', "opaque": True}
    d[n("Bd")] = struct([field(1, "default", T("i32")), bad])
    d[n("BA")] = struct([field(1, "default", ST(n("BB"), True)), field(2, "default", ST(n("Bd"), True))])
    d[n("BB")] = struct([field(1, "default", ST(n("BA"), True))])
    d[n("BX")] = struct([field(1, "default", ST(n("BA"), True))])
    d[n("BY")] = struct([field(1, "default", ST(n("BB"), True))])
    for x in ("Bd", "BA", "BB", "BX", "BY"):
        d[n(x)]["invalid"] = True
    return d


def pools_mc(work, res):
    """spec/Pools.tla: results are history independent with the three reset disciplines of the code, and TLC must
    find a dependence when any one of them is removed (so the model can see what the property is about)"""
    import os
    info = {}
    for cfgname, must_hold in (("Pools", True), ("PoolsNoClear", False), ("PoolsNoReset", False), ("PoolsNoZero", False)):
        d = work.sub("pools")
        cfg = open(os.path.join(vlib.SPEC, cfgname + ".cfg")).read()
        out, st = vlib.tlc(d, "Pools", cfg, workers=4, timeout=900, heap="4g")
        held = st.get("exit") == 0 and "No error has been found" in out
        if held != must_hold:
            raise vlib.MachineryError("Pools.tla/%s: expected %s (model-level lead, not a verdict)" % (cfgname, "no error" if must_hold else "a counterexample"))
        res.tlc_states += st.get("distinct", 0)
        res.tlc_transitions += st.get("generated", 0)
        info[cfgname] = {"distinct_states": st.get("distinct"), "generated": st.get("generated"),
                         "result": "HistoryIndependence holds" if held else "counterexample found (expected: a reset discipline removed)"}
    res.extra["pools_model"] = info


def run(prop, tier, seed, work):
    res = suite.Result(prop, tier, seed)
    pools_mc(work, res)
    rng = random.Random(seed * 3571 + 29)
    quick = tier == "quick"
    ncopies = 24 if quick else 1200
    defs = {}
    for k in range(ncopies):
        defs.update(graph(k))
    U.with_defaults({k: v for k, v in defs.items() if not v.get("invalid")})
    defs_path = vlib.write_defs(work, defs)
    # reference-encoded messages (and mutants) for copy 0's types; other copies get the same
    # bytes since their schemas are identical up to names
    base = ["In", "Rq", "Rq2", "Hd", "Mp", "Top", "En", "Ei", "FxL", "FwL", "FxH", "FxHL", "Nc", "Df", "DfN", "Ml"]
    older = {"FxL": "FwL"}       # reader -> a writer with an older schema of it
    badtypes = ["BX", "BY", "BA", "BB", "Bd"]
    cases = []
    vals = {}
    for b in base:
        s = "%s_0" % b
        vs = list(U.struct_variants(s, defs, [0, 1, 2], [0, 1, 3]))
        head = [x for x in vs if x[0] in ("base", "1=2", "1=3", "z1=2", "unk1", "zunk5")]   # full-first and sparse-first containers of field 1; holders of different lengths
        rest = [x for x in vs if x not in head]
        rng.shuffle(rest)
        vs = (head + rest)[:6]
        if b == "Ml":
            vs = (head + [x for x in rest if x[0].endswith(("=5", "=6", "=4"))] + rest)[:8]     # incl. inner lengths 3, 2, 1, 0
        if b == "DfN":
            # nested values equal to their declared defaults: nothing of them is on the wire, the reader's initialiser supplies them
            dd_ = U.default_struct("Df_0", defs)
            bb_ = U.base_value({"k": "struct", "ptr": False, "s": "Df_0"}, defs, 1, 4)
            vs = [("alldef", {"f": {"1": dd_, "2": {"nil": False, "items": [dd_, bb_, dd_]}, "3": {"nil": False, "ents": [[list(b"a"), bb_], [list(b"b"), dd_]]},
                                    "4": {"p": 1, "v": dd_}}, "unk": []})] + vs[:5]
        vals[b] = vs
        cases.append({"cid": "%s|z|ok" % b, "w": s, "val": U.zero_struct(s, defs), "ord": "asc", "trail": [], "mut": "none"})
        for i, (lbl, v) in enumerate(vs):
            cases.append({"cid": "%s|%d|ok" % (b, i), "w": s, "val": v, "ord": ["asc", "desc", "rot", "evod"][i % 4], "trail": [], "mut": "none"})
            if i < 2:
                cases.append({"cid": "%s|%d|prefix" % (b, i), "w": s, "val": v, "ord": "asc", "trail": [], "mut": "prefix"})
    msgs, st = vlib.gen_messages(work, defs_path, cases)
    res.tlc_states += st.get("distinct", 0)
    res.tlc_transitions += st.get("generated", 0)
    okmsgs = {b: [msgs["%s|%d|ok" % (b, i)][0] for i in range(len(vals[b]))] for b in base}
    zmsg = {b: msgs["%s|z|ok" % b][0] for b in base}
    badmsgs = {b: [m for i in range(2) for m in msgs["%s|%d|prefix" % (b, i)]] for b in base}
    # cross-type messages: a message of one type decoded as another (unknown / retyped fields, missing required)
    scen = []
    nseq = ncopies
    for k in range(nseq):
        n = lambda b: "%s_%d" % (b, k)
        length = rng.randrange(12, 41)
        steps, svals = [], []
        order = base[:]
        rng.shuffle(order)
        for j in range(length):
            b = order[j % len(order)] if j < len(order) else rng.choice(base)
            op = rng.random()
            if rng.random() < 0.10:
                steps.append({"op": "gc"})       # collections with churn: recycled memory is not zero
                continue
            if b in older and rng.random() < 0.6:
                steps.append({"op": "decode", "ty": n(b), "in": rng.choice(okmsgs[older[b]]), "dest": rng.choice(["fresh", "zero"])})
                continue
            if rng.random() < 0.12:
                # a call on a type that reaches an unsupported member: rejected, whatever happened before
                steps.append({"op": "reject", "ty": n(rng.choice(badtypes)), "entry": rng.choice(["size", "encode", "decode"]), "arg": "ptr", "class": "cycle", "repeat": 1})
                continue
            if op < 0.30:
                steps.append({"op": "decode", "ty": n(b), "in": rng.choice(okmsgs[b]), "dest": rng.choice(["fresh", "zero"])})
            elif op < 0.50:
                steps.append({"op": "decode", "ty": n(b), "in": rng.choice(badmsgs[b]), "dest": "fresh"})
            elif op < 0.62:
                other = rng.choice(base)
                steps.append({"op": "decode", "ty": n(b), "in": rng.choice(okmsgs[other]), "dest": "fresh"})
            else:
                lbl, v = rng.choice(vals[b])
                v = rename(v, 0, k)
                svals.append(v)
                vi = len(svals) - 1
                byval = rng.random() < 0.5
                if op < 0.75:
                    steps.append({"op": "size", "ty": n(b), "v": vi, "byval": byval})
                else:
                    steps.append({"op": "encode", "ty": n(b), "v": vi, "byval": byval, "buf": {"mode": "rel", "n": rng.choice([0, 0, 0, -1, 5]), "extra": 0}})
                    import checks_codec
                    f1 = "nil_struct_with_required_fields" in checks_codec.struct_tags(n(b), v, defs)
                    if rng.random() < 0.5 and not f1:   # (F1 values do not round-trip, whatever the history)
                        steps.append({"op": "decode", "ty": n(b), "from": len(steps) - 1, "dest": "fresh", "orig": vi})
        # objects decoded earlier in the sequence must still hold what they held - also after the caller has reused the
        # buffers they were decoded from (only fields declared nocopy may follow the buffer)
        kept = [i for i, st in enumerate(steps) if st.get("op") == "decode"][:8]
        for i in kept:
            steps.append({"op": "recheck", "obj": i, "after": "end"})
        for i in kept[:4]:
            steps.append({"op": "overwrite", "obj": i, "byte": 238})
            steps.append({"op": "recheck", "obj": i, "after": "overwrite"})
        sid = "C07-seq-%d" % k
        scen.append({"sid": sid, "prop": prop, "vals": svals, "steps": steps, "tags": [], "dkey": sid})
    # systematic: the same type by value with different values in a row (the by-value argument travels through a per-type slot),
    # ending with the zero value after a full one
    for b in base:
        ty = "%s_%d" % (b, ncopies - 2)
        vv = [v for (_, v) in vals[b]][:4] + [U.zero_struct("%s_0" % b, defs)]
        steps = []
        for vi in list(range(len(vv))) + [0, len(vv) - 1]:
            steps.append({"op": "size", "ty": ty, "v": vi, "byval": True})
            steps.append({"op": "encode", "ty": ty, "v": vi, "byval": True, "buf": {"mode": "rel", "n": 0, "extra": 0}})
        steps.append({"op": "encode", "ty": ty, "v": len(vv) - 1, "byval": False, "buf": {"mode": "rel", "n": 0, "extra": 0}})
        sid = "C07-byval-%s" % b
        scen.append({"sid": sid, "prop": prop, "vals": vv, "steps": steps, "tags": ["byval-sequence"], "dkey": sid})
    # systematic: a decode that fails inside a nocopy value, then another type's message; the caller then reuses that buffer:
    # the second object's ordinary strings must not follow it
    ncbad = [m for m in badmsgs["Nc"] if 8 <= len(m)][:: max(1, len(badmsgs["Nc"]) // 14)]
    for bi, bad in enumerate(ncbad):
        k2 = bi % ncopies
        steps = [{"op": "decode", "ty": "Nc_%d" % k2, "in": bad, "dest": "fresh"},
                 {"op": "decode", "ty": ["In_%d", "Hd_%d", "Rq2_%d"][bi % 3] % k2, "in": okmsgs[["In", "Hd", "Rq2"][bi % 3]][0], "dest": "fresh"},
                 {"op": "overwrite", "obj": 1, "byte": 120}, {"op": "recheck", "obj": 1, "after": "overwrite"},
                 {"op": "decode", "ty": "Nc_%d" % k2, "in": okmsgs["Nc"][0], "dest": "fresh"},
                 {"op": "decode", "ty": "Mp_%d" % k2, "in": okmsgs["Mp"][0], "dest": "fresh"},
                 {"op": "overwrite", "obj": 5, "byte": 121}, {"op": "recheck", "obj": 5, "after": "overwrite"}]
        sid = "C07-ncfail-%d" % bi
        scen.append({"sid": sid, "prop": prop, "vals": [], "steps": steps, "tags": ["nocopy-failure-then-other-type"], "dkey": sid})
    # systematic: failing decodes of one type that miss DIFFERENT required fields, in every order (what the error names
    # belongs to the call that reports it)
    m1 = [11, 0, 64, 0, 0, 0, 1, 120, 0]            # field 64 only: 1 is missing
    m64 = [8, 0, 1, 0, 0, 0, 5, 0]                  # field 1 only: 64 is missing
    mboth = [3, 0, 65, 7, 0]                        # neither
    mok = [8, 0, 1, 0, 0, 0, 5, 11, 0, 64, 0, 0, 0, 1, 121, 0]
    import itertools
    for oi, order in enumerate(itertools.permutations([m1, m64, mboth])):
        ty = "Rq_%d" % (oi % ncopies)
        steps = []
        for m in order:
            steps.append({"op": "decode", "ty": ty, "in": m, "dest": "fresh"})
        steps.append({"op": "decode", "ty": ty, "in": mok, "dest": "fresh"})
        steps.append({"op": "decode", "ty": ty, "in": order[1], "dest": "zero"})
        # the same inside a map value of another type
        wrap = lambda m: [13, 0, 2, 8, 12, 0, 0, 0, 1, 0, 0, 0, 9] + m + [0]
        mp = "Mp_%d" % (oi % ncopies)
        for m in order:
            steps.append({"op": "decode", "ty": mp, "in": wrap(m), "dest": "fresh"})
        sid = "C07-reqnames-%d" % oi
        scen.append({"sid": sid, "prop": prop, "vals": [], "steps": steps, "tags": ["required-names"], "dkey": sid})
    # systematic: a rejected definition of every class, then the FIRST use of a fresh valid type (whatever the
    # failed build left behind in the parser / resolver must not show in the next type's schema)
    import checks_reject
    if "Leaf" not in defs:
        defs["Leaf"] = struct([field(1, "default", T("i32"))])      # some invalid classes mention a struct Leaf
        U.with_defaults({"Leaf": defs["Leaf"]})
    for ci, (cls, gotype, rawtag) in enumerate(checks_reject.bad_field_classes()):
        badn, frn = "HBad%d" % ci, "HFresh%d" % ci
        badf = {"id": 2, "key": "2", "req": "default", "t": {"k": "i32", "ptr": False, "gotype": gotype}, "nocopy": False,
                "name": list(b"F2"), "rawtag": rawtag, "opaque": True}
        defs[badn] = struct([field(1, "default", T("i32")), badf])
        defs[badn]["invalid"] = True
        defs[frn] = struct([field(1, "default", T("i64")), field(2, "default", T("i32")), field(3, "default", T("string")), field(4, "default", L(T("i16"))),
                            field(5, "optional", T("double", True)), field(6, "default", M(T("string"), T("i64"))), field(7, "default", SET(T("i8")))])
        U.with_defaults({frn: defs[frn]})
        v = U.base_value({"k": "struct", "ptr": False, "s": frn}, defs, 2, ci)
        steps = [{"op": "reject", "ty": badn, "entry": ["size", "encode", "decode"][ci % 3], "arg": "ptr", "class": cls, "repeat": 1},
                 {"op": "size", "ty": frn, "v": 0}, {"op": "encode", "ty": frn, "v": 0, "buf": {"mode": "rel", "n": 0, "extra": 0}},
                 {"op": "decode", "ty": frn, "from": 2, "dest": "fresh", "orig": 0}]
        sid = "C07-rejfirst-%s" % cls
        scen.append({"sid": sid, "prop": prop, "vals": [v], "steps": steps, "tags": ["rejected-then-first-use", cls], "dkey": sid})
    # systematic: every truncation of a message, each followed by complete messages of the same type
    # (what a failed decode leaves in the pools must not show in the next result)
    kcopy = ncopies - 1
    for b in base:
        ty = "%s_%d" % (b, kcopy)
        goods = okmsgs[b]
        steps, fresh_ok, nscen = [], [], 0

        def flush():
            nonlocal steps, fresh_ok, nscen
            if steps:
                sid = "C07-failok-%s-%d" % (b, nscen)
                scen.append({"sid": sid, "prop": prop, "vals": [], "steps": steps, "tags": [], "dkey": sid})
                nscen += 1
            steps, fresh_ok = [], []
        for i, bad in enumerate(badmsgs[b]):
            # after every truncation, complete messages (each directly behind a failure at least once)
            for gi, g in enumerate(goods):
                if not ((i + gi) % 3 == 0 or len(badmsgs[b]) < 150):
                    continue
                steps.append({"op": "decode", "ty": ty, "in": bad, "dest": "fresh"})
                if (i + gi) % 2 == 0:
                    steps.append({"op": "decode", "ty": ty, "in": g, "dest": "fresh"})
                    fresh_ok.append(len(steps) - 1)
                else:
                    # the caller reuses the destination the failed call left partially filled: fields the
                    # next message does not carry keep what they held
                    steps.append({"op": "decode", "ty": ty, "in": zmsg[b], "dest": "into", "obj": len(steps) - 1})
                # an object decoded a while ago into a fresh destination (never decoded into again) still holds its value
                if len(steps) % 7 == 0 and len(fresh_ok) > 3:
                    steps.append({"op": "recheck", "obj": fresh_ok[-3], "after": "decode"})
                if len(steps) >= 110:
                    flush()
        flush()
    suite.run_batches(res, work, [Batch("history", defs, scen, env={"GOMAXPROCS": "1"})], want_props=ALLPROPS)
    return suite.finish(res, RULE, ASSUME)


# in a history scenario a wrong result of any kind is a dependence on history (the same calls
# pass when made first), so every clause counts
ALLPROPS = {"C01", "C02", "C03", "C04", "C05", "C06", "C07", "C09", "C10", "C11", "C13", "C16"}


def rename(v, frm, to):
    """values are name-free: nothing to rename"""
    return v
