"""C08: safe for concurrent use, including first use of a type.

(a) spec/Registry.tla (PlusCal) models the descriptor registry - lock-free lookup, creation
    under the mutex with double check, prefetch of nested types through the shared caches,
    copy-on-write publication - and TLC checks it exhaustively (see registry_mc).
(b) stress: goroutines make the first use of fresh, mutually nested types at the same moment,
    through all three entry points, by value and by pointer, while other goroutines run
    steady-state calls on registered types; built with the race detector; every call is judged
    by TLC like a sequential call, the section must end without race report, crash or hang."""
import os
import random

import universe as U
import suite
import vlib
from suite import Batch
from universe import T, L, SET, M, ST, field, struct

ASSUME = [
    "the Go race detector reports every data race it observes in the executions run (halt_on_error, exit code 66); schedules are whatever the Go scheduler produces under GOMAXPROCS in {2,4,16}",
    "spec/Registry.tla is a hand transcription of descmap.go / desc.go / ttype.go (layer B); its TLC results are design-level evidence, verdicts come from the real code only",
]
RULE = ("scenarios = one concurrent section each: 4..8 goroutines, each making the first use of a private copy of a mutually nested type graph (A->B->A, A->C, D->list<B>, "
        "E->map<string,C>) from a different entry type and entry point (size / encode / decode, by value / by pointer), alongside 2 goroutines in steady state on registered "
        "types; 3 rounds each; GOMAXPROCS 2, 4, 16; race-detector build; distinct = distinct (graph copy, entry assignment, GOMAXPROCS)")


def graph(k):
    n = lambda s: "%s%d" % (s, k)
    d = {}
    d[n("A")] = struct([field(1, "default", ST(n("B"), True)), field(2, "default", ST(n("C"), True)), field(3, "default", T("i32"))])
    d[n("B")] = struct([field(1, "optional", ST(n("A"), True)), field(2, "default", L(T("string"))), field(3, "default", M(T("i32"), ST(n("C"), True)))])
    d[n("C")] = struct([field(1, "default", T("string")), field(2, "default", T("double")), field(3, "optional", T("i64", True))])
    d[n("D")] = struct([field(1, "default", L(ST(n("B"), True))), field(2, "default", SET(T("i16")))])
    d[n("E")] = struct([field(1, "default", M(T("string"), ST(n("C"), True))), field(2, "optional", ST(n("D"), True)), field(3, "default", ST(n("A"), False))])
    return d


def run(prop, tier, seed, work):
    res = suite.Result(prop, tier, seed)
    rng = random.Random(seed * 9173 + 41)
    quick = tier == "quick"
    registry_mc(work, res, quick)
    ncopies = 36 if quick else 1500
    defs = {"Steady": struct([field(1, "default", T("i32")), field(2, "default", M(T("string"), L(T("i64")))), field(3, "optional", T("string", True))])}
    # nested structs with declared defaults: the decoder calls their default initialiser through a cached interface value
    dn = struct([field(1, "optional", T("i32")), field(2, "optional", T("string")), field(3, "optional", T("i64")), field(4, "default", T("i16"))], init=True)
    dn["fields"][0]["def"] = [0, 0, 0, 77]
    dn["fields"][1]["def"] = list(b"dflt")
    dn["fields"][2]["def"] = [0] * 7 + [9]
    defs["Dn"] = dn
    defs["Sd"] = struct([field(1, "default", L(ST("Dn", True))), field(2, "default", M(T("i32"), ST("Dn", True))), field(3, "default", ST("Dn", False)),
                         field(4, "default", L(T("string"))), field(5, "default", T("i64"))])
    for k in range(ncopies):
        defs.update(graph(k))
    # many tiny types: some of them share a slot of the descriptor table (chosen by the driver at run time)
    ncol = 1500 if quick else 6000
    for k in range(ncol):
        defs["Col%d" % k] = struct([field(1, "default", T("i32"))])
    U.with_defaults(defs)
    scen = []
    colv = {"f": {"1": [0, 0, 1, 2]}, "unk": []}
    for k in range(4 if quick else 60):
        sid = "C08-collide-%d" % k
        scen.append({"sid": sid, "prop": prop, "vals": [colv], "tags": ["slot-collision"], "dkey": sid,
                     "steps": [{"op": "par", "collide": 8, "readers": 3, "rounds": 6, "gomaxprocs": [2, 4, 16][k % 3], "hooks": True}]})
    # forced two-party schedules: every building / rejecting transition of spec/RegSeqMC.tla with the writer
    # held at each registry hook of its lock section while fresh readers probe (spec/Api.tla JGated)
    import checks_reject
    edges = [e for e in checks_reject.regmc_edges(work, res, key="regseqmc_gated") if e["kind"] in ("built", "rejected", "hit")]
    if quick:
        rng.shuffle(edges)
        edges = edges[:40]
    res.extra["regseqmc_gated"]["transitions_replayed"] = len(edges)
    gdefs = {}
    for k, e in enumerate(edges):
        gdefs.update(checks_reject.rg_graph(k))
    U.with_defaults({k2: v2 for k2, v2 in gdefs.items() if not v2.get("invalid")})
    defs.update(gdefs)
    for k, e in enumerate(edges):
        vals, steps = [], []

        def call(r, k=k, vals=vals):
            ty = r["s"].replace("_0", "_%d" % k)
            if gdefs[ty].get("invalid"):
                return {"op": "reject", "ty": ty, "entry": "size", "arg": "ptr" if r["byptr"] else "val", "class": "regmc-gated", "repeat": 1}
            vals.append(U.base_value({"k": "struct", "ptr": False, "s": ty}, gdefs, 2, k))
            return {"op": "size", "ty": ty, "v": len(vals) - 1, "byval": not r["byptr"]}
        for r in (e["path"] if isinstance(e["path"], list) else []):
            steps.append(call(r))
        others = [x for x in checks_reject.RG if "Rg%s_0" % x != e["s"]]
        rng.shuffle(others)
        probes = [call({"s": e["s"], "byptr": True}), call({"s": e["s"], "byptr": False})] + \
                 [call({"s": "Rg%s_0" % x, "byptr": bool(j % 2)}) for j, x in enumerate(others[:3])]
        steps.append({"op": "gated", "writer": call({"s": e["s"], "byptr": e["byptr"]}), "probes": probes, "pause_ms": 40})
        sid = "C08-gated-%d" % k
        scen.append({"sid": sid, "prop": prop, "vals": vals, "steps": steps, "tags": ["gated", e["kind"]], "dkey": sid})
    # failing decodes, alone and concurrently: a decode that fails inside a map's entry loop, then concurrent decodes of
    # that map type; many goroutines reporting missing required fields of types they meet for the first time
    for k in range(6 if quick else 120):
        nm = lambda x: "%s%d" % (x, k)
        rq = [field(1, "required", T("i32")), field(2, "required", T("string")), field(3, "required", T("i64")), field(4, "default", T("i16"))]
        wq = [field(1, "optional", T("i32", True)), field(2, "optional", T("string", True)), field(3, "optional", T("i64", True)), field(4, "default", T("i16"))]
        fd = {nm("FRq"): struct(rq), nm("FWRq"): struct(wq),
              nm("FMp"): struct([field(1, "default", M(T("string"), ST(nm("FRq"), True))), field(2, "default", L(ST(nm("FRq"), True))), field(3, "default", M(T("i32"), T("string")))]),
              nm("FWMp"): struct([field(1, "default", M(T("string"), ST(nm("FWRq"), True))), field(2, "default", L(ST(nm("FWRq"), True))), field(3, "default", M(T("i32"), T("string")))])}
        nth = 4
        for t in range(nth):
            for j in range(5):
                fd["FRq%d_%d_%d" % (k, t, j)] = struct([field(i + 1, "required", T("i32") if i % 2 else T("string")) for i in range(8)])
        fd[nm("FWAll")] = struct([field(i + 1, "optional", T("i32", True) if i % 2 else T("string", True)) for i in range(8)])
        U.with_defaults(fd)
        defs.update(fd)
        full = lambda a: {"f": {"1": {"p": 1, "v": U.be(a, 4)}, "2": {"p": 1, "v": list(("s%d" % a).encode())}, "3": {"p": 1, "v": U.be(a * 7, 8)}, "4": U.be(a % 100, 2)}, "unk": []}
        part = lambda a: {"f": {"1": {"p": 1, "v": U.be(a, 4)}, "2": {"p": 0}, "3": {"p": 1, "v": U.be(a, 8)}, "4": [0, 1]}, "unk": []}
        mp = lambda ents, items: {"f": {"1": {"nil": False, "ents": ents}, "2": {"nil": False, "items": items},
                                        "3": {"nil": False, "ents": [[U.be(1, 4), list(b"x")]]}}, "unk": []}
        vals = [mp([[list(b"a"), {"p": 1, "v": full(1)}], [list(b"b"), {"p": 1, "v": part(2)}], [list(b"c"), {"p": 1, "v": full(3)}]], [])]
        steps = [{"op": "encode", "ty": nm("FWMp"), "v": 0, "buf": {"mode": "rel", "n": 0, "extra": 0}}]
        for _ in range(3):
            steps.append({"op": "decode", "ty": nm("FMp"), "from": 0, "dest": "fresh"})          # fails inside the map's entry loop
        none = {"f": {str(i + 1): {"p": 0} for i in range(8)}, "unk": []}
        some = {"f": {str(i + 1): ({"p": 1, "v": U.be(i, 4) if i % 2 else list(b"v")} if i % 3 else {"p": 0}) for i in range(8)}, "unk": []}
        vals += [none, some]
        threads = []
        for t in range(nth):
            good = mp([[list(("k%d_%d" % (t, e)).encode()), {"p": 1, "v": full(100 * t + e)}] for e in range(6)], [{"p": 1, "v": full(1000 * t + e)} for e in range(4)])
            vals.append(good)
            gi = len(vals) - 1
            th = [{"op": "encode", "ty": nm("FWMp"), "v": gi, "buf": {"mode": "rel", "n": 0, "extra": 0}},
                  {"op": "decode", "ty": nm("FMp"), "from": 0, "dest": "fresh"},
                  {"op": "encode", "ty": nm("FWAll"), "v": 1, "buf": {"mode": "rel", "n": 0, "extra": 0}},
                  {"op": "encode", "ty": nm("FWAll"), "v": 2, "buf": {"mode": "rel", "n": 0, "extra": 0}}]
            for j in range(5):
                th.append({"op": "decode", "ty": "FRq%d_%d_%d" % (k, t, j), "from": 2 + (j % 2), "dest": "fresh"})   # required fields missing
            th.append({"op": "decode", "ty": nm("FMp"), "from": 0, "dest": "zero"})
            threads.append(th)
        steps.append({"op": "par", "threads": threads, "rounds": 2, "gomaxprocs": [2, 4, 16][k % 3]})
        sid = "C08-failpar-%d" % k
        scen.append({"sid": sid, "prop": prop, "vals": vals, "steps": steps, "tags": ["failing-decodes"], "dkey": sid})
    # the SAME holder type / the same scalar-map type decoded by several goroutines at once, each with its own contents
    for k in range(3 if quick else 40):
        nm = lambda x: "%s%d" % (x, k)
        hd = {nm("HdC"): struct([field(1, "default", T("i32")), field(3, "default", T("string")), field(9, "default", M(T("i32"), T("i64"))), field(10, "default", M(T("i16"), T("double")))], unk=True),
              nm("WHdC"): struct([field(1, "default", T("i32")), field(2, "default", T("string")), field(3, "default", T("string")), field(4, "default", T("i64")),
                                  field(5, "default", L(T("i16"))), field(6, "optional", T("string", True)), field(9, "default", M(T("i32"), T("i64"))),
                                  field(10, "default", M(T("i16"), T("double")))])}
        U.with_defaults(hd)
        defs.update(hd)
        vals, threads = [], []
        for t in range(5):
            v = {"f": {"1": U.be(t, 4), "2": list(("unknown-%d-%d" % (k, t)).encode()) * (1 + t), "3": list(b"known"), "4": U.be(t * 1000003, 8),
                       "5": {"nil": False, "items": [U.be(t + j, 2) for j in range(3 + t)]}, "6": {"p": 1, "v": list(b"x" * (t + 1))},
                       "9": {"nil": False, "ents": [[U.be(j + 1000 * t, 4), U.be(j * 7 + t, 8)] for j in range(150)]},
                       "10": {"nil": False, "ents": [[U.be(j, 2), U.be(0x4000000000000000 + j + t, 8)] for j in range(60)]}}, "unk": []}
            vals.append(v)
            threads.append([{"op": "encode", "ty": nm("WHdC"), "v": t, "buf": {"mode": "rel", "n": 0, "extra": 0}},
                            {"op": "decode", "ty": nm("HdC"), "from": 0, "dest": "fresh"},
                            {"op": "decode", "ty": nm("HdC"), "from": 0, "dest": "zero"}])
        steps = [{"op": "encode", "ty": nm("WHdC"), "v": 0, "buf": {"mode": "rel", "n": 0, "extra": 0}}, {"op": "decode", "ty": nm("HdC"), "from": 0, "dest": "fresh"},
                 {"op": "par", "threads": threads, "rounds": 12, "gomaxprocs": [16, 4, 2][k % 3]}]
        sid = "C08-sametype-%d" % k
        scen.append({"sid": sid, "prop": prop, "vals": vals, "steps": steps, "tags": ["same-type-decodes"], "dkey": sid})
    # steady state on DIFFERENT registered types at the same time: whatever is remembered between calls (last type, last
    # descriptor, scratch values) must not leak from one goroutine's call into another's
    for k in range(3 if quick else 40):
        g = graph(10000 + k)
        U.with_defaults(g)
        defs.update(g)
        names = sorted(g.keys())
        vals, pre, threads = [], [], []
        for ti, ty in enumerate(names + names[:1]):
            v = U.base_value({"k": "struct", "ptr": False, "s": ty}, defs, 3, k + ti)
            vals.append(v)
            pre.append({"op": "size", "ty": ty, "v": ti})
            threads.append([{"op": "size", "ty": ty, "v": ti, "byval": bool(ti % 2)},
                            {"op": "encode", "ty": ty, "v": ti, "byval": bool((ti + 1) % 2), "buf": {"mode": "rel", "n": 0, "extra": 0}},
                            {"op": "decode", "ty": ty, "from": 1, "dest": "fresh", "orig": ti}])
        steps = pre + [{"op": "par", "threads": threads, "rounds": 25, "gomaxprocs": [4, 16, 2][k % 3]}]
        sid = "C08-steadymix-%d" % k
        scen.append({"sid": sid, "prop": prop, "vals": vals, "steps": steps, "tags": ["steady-mix"], "dkey": sid})
    sv = U.base_value({"k": "struct", "ptr": False, "s": "Steady"}, defs, 2, 1)
    for k in range(ncopies):
        n = lambda s: "%s%d" % (s, k)
        vals = [sv]
        threads = []
        entries = ["A", "B", "C", "D", "E", "A", "E", "B"]
        rng.shuffle(entries)
        nthreads = rng.randrange(4, 9)
        for ti in range(nthreads):
            ty = n(entries[ti % len(entries)])
            v = U.base_value({"k": "struct", "ptr": False, "s": ty}, defs, 3, ti)
            vals.append(v)
            vi = len(vals) - 1
            first = rng.choice(["size", "encode", "decode"])
            byval = rng.random() < 0.4
            th = []
            if first == "size":
                th.append({"op": "size", "ty": ty, "v": vi, "byval": byval})
            if first == "decode":
                th.append({"op": "decode", "ty": ty, "in": [0], "dest": "fresh"})
            th.append({"op": "encode", "ty": ty, "v": vi, "byval": byval, "buf": {"mode": "rel", "n": 0, "extra": 0}})
            th.append({"op": "decode", "ty": ty, "from": len(th) - 1, "dest": "fresh", "orig": vi})
            th.append({"op": "size", "ty": ty, "v": vi, "byval": not byval})
            threads.append(th)
        for _ in range(2):
            threads.append([{"op": "encode", "ty": "Steady", "v": 0, "buf": {"mode": "rel", "n": 0, "extra": 0}},
                            {"op": "decode", "ty": "Steady", "from": 0, "dest": "fresh", "orig": 0},
                            {"op": "size", "ty": "Steady", "v": 0, "byval": True}])
        # several goroutines on the SAME type with different values: by-value arguments go through a per-type
        # pool, nested default initialisers through a per-type cached interface value
        for ti in range(3):
            dv = sd_value(defs, k * 7 + ti)
            vals.append(dv)
            vi = len(vals) - 1
            threads.append([{"op": "encode", "ty": "Sd", "v": vi, "byval": True, "buf": {"mode": "rel", "n": 0, "extra": 0}},
                            {"op": "decode", "ty": "Sd", "from": 0, "dest": "fresh", "orig": vi},
                            {"op": "size", "ty": "Sd", "v": vi, "byval": True},
                            {"op": "encode", "ty": "Sd", "v": vi, "byval": True, "buf": {"mode": "rel", "n": 0, "extra": 0}},
                            {"op": "decode", "ty": "Sd", "from": 3, "dest": "zero", "orig": vi}])
        steps = [{"op": "encode", "ty": "Steady", "v": 0, "buf": {"mode": "rel", "n": 0, "extra": 0}},   # registers Steady first
                 {"op": "par", "threads": threads, "rounds": 3, "gomaxprocs": [2, 4, 16][k % 3], "hooks": True}]
        sid = "C08-par-%d" % k
        scen.append({"sid": sid, "prop": prop, "vals": vals, "steps": steps, "tags": [], "dkey": sid})
    suite.run_batches(res, work, [Batch("stress", defs, scen, race=True)],
                      want_props={"C08", "C01", "C02", "C03", "C04", "C16"})
    return suite.finish(res, RULE, ASSUME)


def sd_value(defs, salt):
    """an Sd value whose nested Dn structs alternate between all-default (every optional field omitted on the
    wire, so the decoded value relies on the default initialiser) and distinct non-default contents"""
    def dn(j):
        if j % 2 == 0:
            return U.default_struct("Dn", defs)
        return {"f": {"1": U.be(1000 + salt * 13 + j, 4), "2": list(("s%d-%d" % (salt, j)).encode()), "3": U.be(salt * 1000003 + j, 8), "4": U.be(salt + j, 2)}, "unk": []}
    n = 3 + salt % 4
    return {"f": {"1": {"nil": False, "items": [{"p": 1, "v": dn(j + salt)} for j in range(n)]},
                  "2": {"nil": False, "ents": [[U.be(j * 17 + salt, 4), {"p": 1, "v": dn(j + salt + 1)}] for j in range(n)]},
                  "3": dn(salt), "4": {"nil": False, "items": [list(("x" * (5 + j) + str(salt)).encode()) for j in range(n + 20)]},
                  "5": U.be(salt * 7919, 8)}, "unk": []}


def registry_mc(work, res, quick):
    """exhaustive TLC runs of the registry model (layer B): three instances that must hold and
    one (the pre-repair rollback) in which TLC must find the half-built descriptor"""
    info = {}
    for cfgname, must_hold in (("Registry", True), ("RegistryBad", True), ("RegistryLive", True), ("RegistryOld", False)):
        d = work.sub("registry")
        cfg = open(os.path.join(vlib.SPEC, cfgname + ".cfg")).read()
        out, st = vlib.tlc(d, "Registry", cfg, workers=8, timeout=1500, heap="8g")
        held = st.get("exit") == 0 and "No error has been found" in out
        if held != must_hold:
            keep = os.path.join(vlib.VERIF, "work", "last-registry-failure.txt")
            open(keep, "w").write(out[-30000:])
            raise vlib.MachineryError("Registry.tla/%s: expected %s; TLC output in %s (a model-level lead, not a verdict on the code)" % (
                cfgname, "no error" if must_hold else "a counterexample", keep))
        res.tlc_states += st.get("distinct", 0)
        res.tlc_transitions += st.get("generated", 0)
        info[cfgname] = {"distinct_states": st.get("distinct"), "generated": st.get("generated"), "depth": st.get("depth"),
                         "result": "holds" if held else "counterexample found (expected: models the pre-repair rollback)"}
    res.extra["registry_model"] = info
