"""property id -> check implementation"""
import json

import vlib
import suite


def run(prop, tier, seed, work):
    if prop in ("C01", "C02", "C04", "C16"):
        import checks_codec
        return checks_codec.run(prop, tier, seed, work)
    if prop in ("C03", "C09", "C10", "C11"):
        import checks_decode
        return checks_decode.run(prop, tier, seed, work)
    if prop == "C05":
        import checks_malformed
        return checks_malformed.run(prop, tier, seed, work)
    if prop == "C15":
        import checks_depth
        return checks_depth.run(prop, tier, seed, work)
    if prop == "C07":
        import checks_history
        return checks_history.run(prop, tier, seed, work)
    if prop == "C13":
        import checks_reject
        return checks_reject.run(prop, tier, seed, work)
    if prop == "C17":
        import checks_config
        return checks_config.run17(prop, tier, seed, work)
    if prop == "C18":
        import checks_config
        return checks_config.run18(prop, tier, seed, work)
    if prop == "C12":
        import checks_tags
        return checks_tags.run(prop, tier, seed, work)
    if prop == "C08":
        import checks_conc
        return checks_conc.run(prop, tier, seed, work)
    if prop == "C06":
        import checks_memory
        return checks_memory.run06(prop, tier, seed, work)
    if prop == "C14":
        import checks_memory
        return checks_memory.run14(prop, tier, seed, work)
    raise vlib.MachineryError("no check for " + prop)


def replay(prop, path, work):
    """re-run the scenario of a replay file against the current tree and judge it again"""
    payload = json.load(open(path))
    res = suite.Result(prop, "quick", 0)
    b = suite.Batch("replay", payload["defs"], [payload["scenario"]], env=payload.get("env"), race=payload.get("race", False))
    import os
    os.environ["VERIF_NO_REPLAY_WRITE"] = "1"
    suite.run_batches(res, work, [b])
    for sig, (n, k) in res.known_hits.items():
        print("KNOWN-FINDING: property=%s %s" % (prop, k.get("what", "")))
    for sigs, p, text in res.violations:
        print("VIOLATION property=%s replay=%s" % (prop, path))
        print("  " + text)
    print("replay: %d violations" % len(res.violations))
    return 1 if res.violations else 0
