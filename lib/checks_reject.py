"""C13: unsupported definitions and arguments are rejected cleanly and consistently.

Every invalid class is instantiated as a private struct type at several positions (top level,
nested pointer struct, list element, map value, recursive cycle); the three entry points are
called in seeded orders, repeatedly, interleaved with calls on valid neighbour types whose
results are judged as usual (a failed registration must not affect them)."""
import random

import universe as U
import suite
import vlib
from suite import Batch
from universe import T, L, M, ST, field, struct

ASSUME = [
    "the classes of unsupported definitions are enumerated by the generator (lib/checks_reject.py) following the statement of the property; spec/Api.tla JReject states what a clean rejection is",
    "EncodedSize must panic with a value that is not a runtime.Error; EncodeObject / DecodeObject must return a non-nil error",
]
RULE = ("invalid definition classes (unsupported Go kinds, slice without annotation, contradicting and syntactically broken annotations, invalid map keys, "
        "non-struct pointers as elements / values / non-optional fields, pointers to pointers and containers, duplicate / negative / non-numeric / out-of-range ids, "
        "unknown requiredness and options) x positions (top level, nested struct, list element, map value, recursive cycle) x entry points x seeded call orders "
        "with repetitions and valid neighbours; distinct = distinct (class, position, entry point, argument kind)")


def bad_field_classes():
    """(class name, go type, raw tag) of ONE bad field; the struct also gets a good field"""
    out = []
    for g in ["uint8", "uint16", "uint32", "uint64", "uint", "float32", "complex128", "chan int", "func()", "interface{}",
              "[4]int32", "uintptr", "unsafe.Pointer"]:
        out.append(("kind-" + g.replace(" ", "").replace("(", "").replace(")", "").replace("{", "").replace("}", "").replace("[", "").replace("]", "").replace(".", ""),
                    g, 'frugal:"2,default"'))
    out += [
        ("slice-noannot", "[]int32", 'frugal:"2,default"'),
        ("slice-noannot-str", "[]string", 'frugal:"2,optional"'),
        ("contra-i32-i64", "int32", 'frugal:"2,default,i64"'),
        ("contra-str-i32", "string", 'frugal:"2,default,i32"'),
        ("contra-list-elem", "[]int32", 'frugal:"2,default,list<i64>"'),
        ("contra-map-val", "map[string]int32", 'frugal:"2,default,map<string:i64>"'),
        ("contra-map-key", "map[string]int32", 'frugal:"2,default,map<i32:i32>"'),
        ("contra-struct-name", "*Leaf", 'frugal:"2,default,Other"'),
        ("contra-slice-map", "[]int32", 'frugal:"2,default,map<i32:i32>"'),
        ("contra-map-list", "map[int32]int32", 'frugal:"2,default,list<i32>"'),
        ("contra-binary-list", "[]byte", 'frugal:"2,default,list<i8>"'),
        ("contra-bool-byte", "bool", 'frugal:"2,default,byte"'),
        ("map-kw-dict", "map[string]int32", 'frugal:"2,default,dict<string:i32>"'),
        ("map-kw-list", "map[string]int64", 'frugal:"2,default,list<string:i64>"'),
        ("map-kw-set", "map[int32]string", 'frugal:"2,default,set<i32:string>"'),
        ("map-kw-struct", "map[int32]int32", 'frugal:"2,default,struct<i32:i32>"'),
        ("map-kw-hashmap", "map[string]string", 'frugal:"2,optional,hashmap<string:string>"'),
        ("syn-unclosed", "[]int32", 'frugal:"2,default,list<i32"'),
        ("syn-double-open", "[]int32", 'frugal:"2,default,list<<i32>"'),
        ("syn-map-comma", "map[string]int32", 'frugal:"2,default,map<string;i32>"'),
        ("syn-map-noval", "map[string]int32", 'frugal:"2,default,map<string:>"'),
        ("syn-empty-elem", "[]int32", 'frugal:"2,default,list<>"'),
        ("syn-misspelt", "[]int32", 'frugal:"2,default,lst<i32>"'),
        ("syn-noangle", "[]int32", 'frugal:"2,default,set i32"'),
        ("syn-map-unclosed", "map[string]int32", 'frugal:"2,default,map<string:i32"'),
        ("syn-extra-close", "[]int32", 'frugal:"2,default,list<i32>>"'),
        ("syn-trailing-junk", "int32", 'frugal:"2,default,i32 junk"'),
        ("syn-trailing-close", "int32", 'frugal:"2,default,i32>"'),
        ("syn-fragment-i", "int32", 'frugal:"2,default,i"'),
        ("syn-fragment-3", "int32", 'frugal:"2,default,3"'),
        ("syn-fragment-oo", "bool", 'frugal:"2,default,oo"'),
        ("syn-fragment-yte", "int8", 'frugal:"2,default,yte"'),
        ("syn-fragment-tring", "string", 'frugal:"2,default,tring"'),
        ("syn-dot-only", "*Leaf", 'frugal:"2,default,pkg."'),
        ("key-ptr-scalar", "map[*string]int32", 'frugal:"2,default,map<string:i32>"'),
        ("key-float32", "map[float32]int32", 'frugal:"2,default,map<double:i32>"'),
        ("key-struct-value", "map[Leaf]int32", 'frugal:"2,default,map<Leaf:i32>"'),
        ("key-array", "map[[2]int32]int32", 'frugal:"2,default,map<i32:i32>"'),
        ("elem-ptr-scalar", "[]*int32", 'frugal:"2,default,list<i32>"'),
        ("val-ptr-scalar", "map[string]*int32", 'frugal:"2,default,map<string:i32>"'),
        ("val-ptr-string", "map[string]*string", 'frugal:"2,default,map<string:string>"'),
        ("val-ptr-scalar-noannot", "map[string]*int32", 'frugal:"2,default"'),
        ("val-ptr-string-thrift", "map[string]*string", 'thrift:"m,2"'),
        ("val-ptr-scalar-optional", "map[int32]*int64", 'frugal:"2,optional"'),
        ("key-ptr-scalar-noannot", "map[*string]int32", 'frugal:"2,default"'),
        ("nested-val-ptr-noannot", "map[string]map[string]*int32", 'frugal:"2,default"'),
        ("field-ptr-default", "*int32", 'frugal:"2,default,i32"'),
        ("field-ptr-required", "*string", 'frugal:"2,required,string"'),
        ("ptrptr-struct", "**Leaf", 'frugal:"2,optional,Leaf"'),
        ("ptrptr-scalar", "**int32", 'frugal:"2,optional,i32"'),
        ("ptr-slice", "*[]int32", 'frugal:"2,optional,list<i32>"'),
        ("ptr-map", "*map[string]int32", 'frugal:"2,optional,map<string:i32>"'),
        ("ptr-binary", "*[]byte", 'frugal:"2,optional,binary"'),
        ("elem-ptrptr", "[]**Leaf", 'frugal:"2,default,list<Leaf>"'),
        ("id-negative", "int32", 'frugal:"-1,default,i32"'),
        ("id-nonnumeric", "int32", 'frugal:"x,default,i32"'),
        ("id-too-big", "int32", 'frugal:"65536,default,i32"'),
        ("id-empty", "int32", 'frugal:""'),
        ("id-float", "int32", 'frugal:"1.5,default,i32"'),
        ("id-duplicate", "int32", 'frugal:"1,default,i32"'),     # the good field has id 1 too
        ("req-unknown", "int32", 'frugal:"2,requiredd,i32"'),
        ("req-upper", "int32", 'frugal:"2,Required,i32"'),
        ("opt-unknown", "string", 'frugal:"2,default,string,nocpy"'),
        ("opt-nocopy-int", "int32", 'frugal:"2,default,i32,nocopy"'),
        ("opt-nocopy-twice", "string", 'frugal:"2,default,string,nocopy,nocopy"'),
        ("opt-nocopy-list", "[]string", 'frugal:"2,default,list<string>,nocopy"'),
        ("slice-named-byte", "[]MyU8", 'frugal:"2,default,binary"'),
        ("slice-named-byte-bare", "[]MyU8", 'frugal:"2,default"'),
        ("map-val-named-bytes", "map[string][]MyU8", 'frugal:"2,default,map<string:binary>"'),
        ("field-ptr-enum-default", "*Enum", 'frugal:"2,default,Enum"'),
        ("field-ptr-enum-required", "*Enum", 'frugal:"2,required,Enum"'),
        ("key-ptr-i32", "map[*int32]string", 'frugal:"2,default,map<i32:string>"'),
        ("thrift-bad-id", "int32", 'thrift:"name,x,default"'),
        ("thrift-bad-req", "int32", 'thrift:"name,2,sometimes"'),
    ]
    return out


POS_SHIFT = [0]


def invalid_universe(rng, copies=1):
    POS_SHIFT[0] = rng.randrange(7)
    """-> (defs, plan) where plan is a list of (class, position, bad top-level type, [valid neighbour types])"""
    defs = U.leaf_structs()
    plan = []
    good = field(1, "default", T("i32"))
    shared = field(0, "optional", ST("Leaf", True))     # a nested type the valid neighbours use too, at a lower id than the bad field
    for ci, (cls, gotype, rawtag) in enumerate(bad_field_classes()):
        for copy in range(copies):
            base = "Bad%d_%d" % (ci, copy)
            badf = {"id": 2, "key": "2", "req": "default", "t": {"k": "i32", "ptr": False, "gotype": gotype}, "nocopy": False,
                    "name": list(b"F2"), "rawtag": rawtag, "opaque": True}
            defs[base] = struct([dict(shared), dict(good), badf])
            defs[base]["invalid"] = True
            plan.append((cls, "top", base, []))
            poss = ["nested", "listelem", "mapval", "cycle", "nested2", "mapkey", "listmapkey"]
            pos = poss[(ci + copy + rng.randrange(1000) * 0 + POS_SHIFT[0]) % len(poss)]     # every position meets many classes in every run
            holder = "%s_%s" % (base, pos)
            inner = "%sI_%s" % (base, pos)   # a private bad type first met nested
            defs[inner] = struct([dict(shared), dict(good), dict(badf)])
            defs[inner]["invalid"] = True
            ok1 = "%s_ok" % base            # valid neighbours sharing nothing but the leaf
            defs[ok1] = struct([field(1, "default", T("i32")), field(2, "optional", ST("Leaf", True)), field(3, "default", L(T("string")))])
            if pos == "nested":
                defs[holder] = struct([field(1, "default", ST(inner, True)), field(2, "default", T("i32"))])
            elif pos == "nested2":
                mid = holder + "_mid"
                defs[mid] = struct([field(1, "optional", ST(inner, True)), field(2, "default", ST("Leaf", True))])
                defs[mid]["invalid"] = True
                defs[holder] = struct([field(1, "default", ST(mid, False)), field(2, "default", T("i32"))])
            elif pos == "listelem":
                defs[holder] = struct([field(1, "default", L(ST(inner, True))), field(2, "default", T("i32"))])
            elif pos == "mapkey":
                defs[holder] = struct([field(1, "default", M(ST(inner, True), T("i32"))), field(2, "default", ST("Leaf", True))])
            elif pos == "listmapkey":
                defs[holder] = struct([field(1, "default", L(M(ST(inner, True), T("string")))), field(2, "default", T("i32"))])
            elif pos == "mapval":
                defs[holder] = struct([field(1, "default", M(T("string"), ST(inner, True))), field(2, "default", ST("Leaf", True))])
            else:  # cycle: holder -> A -> {B, inner}, B -> A ; Y -> B is a valid-looking relative that reaches the bad type
                a, b, y = holder + "_A", holder + "_B", holder + "_Y"
                defs[a] = struct([field(1, "default", ST(b, True)), field(2, "default", ST(inner, True))])
                defs[b] = struct([field(1, "default", ST(a, True))])
                defs[y] = struct([field(1, "default", ST(b, True))])
                defs[holder] = struct([field(1, "default", ST(a, True))])
                for x in (a, b, y):
                    defs[x]["invalid"] = True
                plan.append((cls, "cycle-relative", y, []))
            # the holder also nests the shared valid type, at a lower id than the path to the bad one
            defs[holder]["fields"].insert(0, dict(shared))
            defs[holder]["invalid"] = True
            plan.append((cls, pos, holder, [ok1]))
    U.with_defaults({k: v for k, v in defs.items() if not v.get("invalid")})
    return defs, plan


# ---- spec/RegSeqMC.tla: one implementation test per transition of the sequential registry machine ----
RG = ["L", "A", "B", "X", "W", "V", "M", "N"]


def rg_graph(k, flag=False):
    """a private copy of the graph: sharing (L under A, B, W, V), a cycle (A <-> B), a directly rejected
    member X, and three wrappers that reach it after / before / long after building accepted types"""
    n = lambda s: "Rg%s_%d" % (s, k)
    d = {}
    d[n("L")] = struct([field(1, "default", T("i32"))])
    d[n("A")] = struct([field(1, "default", ST(n("L"), True)), field(2, "default", L(ST(n("B"), True))), field(3, "default", T("i32"))])
    d[n("B")] = struct([field(1, "default", ST(n("L"), False)), field(2, "optional", ST(n("A"), True))])
    badf = {"id": 2, "key": "2", "req": "default", "t": {"k": "i32", "ptr": False, "gotype": "uint32"}, "nocopy": False,
            "name": list(b"F2"), "rawtag": 'frugal:"2,default,i32"', "opaque": True}
    d[n("X")] = struct([field(0, "optional", ST(n("L"), True)), field(1, "default", T("i32")), badf])
    d[n("X")]["direct_invalid"] = True
    d[n("W")] = struct([field(1, "default", ST(n("L"), True)), field(2, "optional", ST(n("X"), True))])
    d[n("V")] = struct([field(1, "optional", ST(n("X"), True)), field(2, "default", ST(n("L"), True))])
    d[n("M")] = struct([field(1, "default", ST(n("A"), True)), field(2, "default", M(T("string"), ST(n("X"), True)))])
    # a supported type that meets (by pointer) a type others have built, possibly during a build that failed
    d[n("N")] = struct([field(1, "default", ST(n("A"), True)), field(2, "optional", ST(n("L"), True))])
    for x in ("X", "W", "V", "M"):
        d[n(x)]["invalid"] = True
    if flag:
        for x in RG:
            d[n(x)]["regmc"] = True
    return d


def regmc_edges(work, res, key="regseqmc"):
    """explore spec/RegSeqMC.tla; returns its transitions"""
    import json
    import os
    base = rg_graph(0, flag=True)
    U.with_defaults({k: v for k, v in base.items() if not v.get("invalid")})
    dd = work.sub("regseqmc")
    dp = os.path.join(dd, "defs.json")
    json.dump(base, open(dp, "w"))
    cfg = ("CONSTANT MaxLen = %d\nINIT Init\nNEXT Next\nVIEW View\nINVARIANT CacheClosed\nINVARIANT RejectStable\n"
           "INVARIANT PublishedBuilt\nCHECK_DEADLOCK FALSE\n" % 6)
    out, st = vlib.tlc(dd, "RegSeqMC", cfg, env={"VERIF_DEFS": dp}, workers=1, timeout=1200, heap="4g")
    if st.get("exit") != 0 or "No error has been found" not in out:
        keep = os.path.join(vlib.VERIF, "work", "last-regseqmc-failure.txt")
        open(keep, "w").write(out[-30000:])
        raise vlib.MachineryError("RegSeqMC: the sequential registry model violates its own invariants (or TLC failed); see %s\n%s" % (keep, out[-2500:]))
    edges = vlib.tlc_printed_json(out, "EDGE")
    res.tlc_states += st.get("distinct", 0)
    res.tlc_transitions += st.get("generated", 0)
    res.extra[key] = {"states": st.get("distinct", 0), "transitions": len(edges),
                             "kinds": {k: sum(1 for e in edges if e["kind"] == k) for k in ("fast", "hit", "built", "rejected")}}
    return edges


def regmc_batch(work, res, quick, rng):
    import json
    edges = regmc_edges(work, res)
    # A rejected build leaves the model's state as it was, so no shortest path contains one.  What a failed build leaves
    # behind in the CODE is exactly what matters, so every (state, rejected request) is followed by further requests made
    # in that state: path + rejected + request.
    pkey = lambda e: json.dumps(e["path"] if isinstance(e["path"], list) else [])
    by_state = {}
    for e in edges:
        by_state.setdefault(pkey(e), []).append(e)
    after = []
    for k, es in sorted(by_state.items()):
        rej = [e for e in es if e["kind"] == "rejected"]
        oth = [e for e in es if e["kind"] in ("built", "hit", "fast")]
        for r in rej:
            qs = list(oth)
            rng.shuffle(qs)
            first = k == "[]"          # from the empty registry: every request after every rejected build
            for q in (qs if first else qs[: (2 if quick else 6)]):
                path = (q["path"] if isinstance(q["path"], list) else []) + [{"s": r["s"], "byptr": r["byptr"]}]
                after.append({"path": path, "s": q["s"], "byptr": q["byptr"], "kind": "after-rejected-" + q["kind"], "nev": q["nev"]})
    if quick:
        rng.shuffle(edges)
        rng.shuffle(after)
        edges = edges[:120] + [a for a in after if len(a["path"]) == 1] + [a for a in after if len(a["path"]) > 1][:150]
    else:
        rng.shuffle(after)
        edges = edges + [a for a in after if len(a["path"]) == 1] + [a for a in after if len(a["path"]) > 1][:900]
    res.extra["regseqmc"]["transitions_replayed"] = len(edges)
    defs, scen = {}, []
    for k, e in enumerate(edges):
        g = rg_graph(k)
        defs.update(g)
    U.with_defaults({k: v for k, v in defs.items() if not v.get("invalid")})
    for k, e in enumerate(edges):
        path = (e["path"] if isinstance(e["path"], list) else []) + [{"s": e["s"], "byptr": e["byptr"]}]
        steps, vals = [], []
        for r in path:
            ty = r["s"].replace("_0", "_%d" % k)
            if defs[ty].get("invalid"):
                steps.append({"op": "reject", "ty": ty, "entry": "size" if len(steps) % 2 else "encode", "arg": "ptr" if r["byptr"] else "val",
                              "class": "regmc", "repeat": 1})
            else:
                vals.append(U.base_value({"k": "struct", "ptr": False, "s": ty}, defs, 2, k))
                steps.append({"op": "size", "ty": ty, "v": len(vals) - 1, "byval": not r["byptr"]})
        sid = "C13-regmc-%d" % k
        scen.append({"sid": sid, "prop": "C13", "vals": vals, "steps": steps, "tags": ["regmc", e["kind"]], "dkey": sid})
    return Batch("regmc", defs, scen)


def run(prop, tier, seed, work):
    res = suite.Result(prop, tier, seed)
    rng = random.Random(seed * 4241 + 7)
    quick = tier == "quick"
    defs, plan = invalid_universe(rng, copies=1 if quick else 8)
    scen = []
    entries = ["size", "encode", "decode"]
    okval = lambda s: U.base_value({"k": "struct", "ptr": False, "s": s}, defs, 2, 1)
    for i, (cls, pos, ty, neighbours) in enumerate(plan):
        steps, vals = [], []
        order = entries[:]
        rng.shuffle(order)
        seq = order + [rng.choice(entries) for _ in range(3)]
        for j, e in enumerate(seq):
            argk = rng.choice(["ptr", "ptr", "val"]) if e != "decode" else "ptr"
            steps.append({"op": "reject", "ty": ty, "entry": e, "arg": argk, "class": cls + "@" + pos, "repeat": 2})
            if neighbours and j in (1, 3):
                nb = neighbours[0]
                vals.append(okval(nb))
                steps.append({"op": "encode", "ty": nb, "v": len(vals) - 1, "buf": {"mode": "rel", "n": 0, "extra": 0}})
                steps.append({"op": "decode", "ty": nb, "from": len(steps) - 1, "dest": "fresh", "orig": len(vals) - 1})
        sid = "C13-%s-%s-%d" % (cls, pos, i)
        scen.append({"sid": sid, "prop": prop, "vals": vals, "steps": steps, "tags": [cls, pos], "dkey": "%s/%s" % (cls, pos)})
    # arguments that are not (pointers to) structs
    steps = []
    for argk in ["nil", "int", "intptr", "ptrptr", "nilptr", "str", "slice", "map", "nilintptr", "nilsliceptr", "nilptrptr", "nilmapptr"]:
        for e in entries:
            if argk == "nilptr" and e != "decode":
                continue   # a nil *struct is a pointer to a struct: encoding it is not an error
            steps.append({"op": "reject", "ty": "Leaf", "entry": e, "arg": argk, "class": "arg-" + argk, "repeat": 2})
    # decode additionally needs a pointer: a struct value is not a valid destination
    steps.append({"op": "reject", "ty": "Leaf", "entry": "decode", "arg": "val", "class": "arg-val-decode", "repeat": 2})
    scen.append({"sid": "C13-args", "prop": prop, "vals": [], "steps": steps, "tags": ["args"], "dkey": "args"})
    # typed nil pointers to unsupported struct types (no value to look at: the type alone must be rejected)
    steps = []
    for i, (cls, pos, ty, neighbours) in enumerate(plan):
        if i % 3 == 0:
            for e in ("encode", "size"):
                steps.append({"op": "reject", "ty": ty, "entry": e, "arg": "nilptr", "class": "nilptr-" + cls, "repeat": 1})
    scen.append({"sid": "C13-nilptr-invalid", "prop": prop, "vals": [], "steps": steps, "tags": ["args", "nilptr"], "dkey": "nilptr"})
    suite.run_batches(res, work, [Batch("invalid", defs, scen), regmc_batch(work, res, quick, rng)], want_props={"C13", "C01", "C02", "C03", "C04"})
    return suite.finish(res, RULE, ASSUME)
