"""Orchestration library for /verif/bin/vcheck.

Nothing here decides a property: it generates inputs, builds and runs the driver against
/repo's working tree, hands the recorded traces to TLC (spec/ApiTrace.tla) and relays the
verdicts TLC prints.  Exit codes: 0 held, 1 violation, 2 machinery failure."""
import json
import os
import re
import shutil
import subprocess
import sys
import time
import atexit
import hashlib
from concurrent.futures import ThreadPoolExecutor

VERIF = os.path.dirname(os.path.dirname(os.path.abspath(__file__)))
SPEC = os.path.join(VERIF, "spec")
# where evidence/ and replay/ are written: /verif, unless an evaluation run (bin/seed-eval2, bin/benign-eval)
# redirects them so that it does not overwrite the files of the registered checks
OUT = os.environ.get("VERIF_OUT", VERIF)
HARNESS = os.path.join(VERIF, "harness")
# the tree under verification; checks registered in MANIFEST.json use /repo itself (VERIF_REPO is only for
# background runs against a snapshot of its HEAD)
REPO = os.environ.get("VERIF_REPO", "/repo")
NCPU = os.cpu_count() or 4

sys.path.insert(0, os.path.join(VERIF, "lib"))
import typegen  # noqa: E402


class MachineryError(Exception):
    pass


GOENV = dict(os.environ, GOFLAGS="-mod=mod", GOPROXY="off", GOSUMDB="off", GOTOOLCHAIN="local")


class Work:
    """Scratch directory under /verif/work, removed at exit."""

    def __init__(self, tag):
        self.dir = os.path.join(VERIF, "work", "%s.%d" % (tag, os.getpid()))
        shutil.rmtree(self.dir, ignore_errors=True)
        os.makedirs(self.dir)
        if not os.environ.get("VERIF_KEEP"):
            atexit.register(lambda: shutil.rmtree(self.dir, ignore_errors=True))
        self.n = 0

    def sub(self, name):
        self.n += 1
        d = os.path.join(self.dir, "%02d-%s" % (self.n, name))
        os.makedirs(d)
        return d


# ---------------------------------------------------------------------------------------
# TLC
# ---------------------------------------------------------------------------------------
TLC_JAR = "/opt/veriftools/tla/tla2tools.jar:/opt/veriftools/tla/CommunityModules-deps.jar"


def tlc(rundir, module, cfg_text, env=None, workers=1, extra=None, timeout=1800, heap="2g",
        simulate=None, light=False):
    """Run TLC on spec/<module>.tla inside rundir (spec files are copied there).
    Returns (stdout, stats) where stats has states/distinct/depth if reported."""
    for f in os.listdir(SPEC):
        if f.endswith(".tla"):
            shutil.copy(os.path.join(SPEC, f), rundir)
    with open(os.path.join(rundir, module + ".cfg"), "w") as fh:
        fh.write(cfg_text)
    e = dict(os.environ)
    e.pop("JAVA_TOOL_OPTIONS", None)
    if env:
        e.update(env)
    # light: many short single-worker runs side by side (trace judging)
    gc = ["-XX:+UseSerialGC", "-XX:TieredStopAtLevel=1"] if light else ["-XX:+UseParallelGC"]
    cmd = ["java", "-Xss512m", "-Xmx" + heap] + gc + ["-cp", TLC_JAR, "tlc2.TLC",
           "-workers", str(workers), "-metadir", os.path.join(rundir, "md")]
    if simulate:
        cmd += ["-simulate", simulate]
    if extra:
        cmd += extra
    cmd += [module + ".tla"]
    try:
        p = subprocess.run(cmd, cwd=rundir, env=e, stdout=subprocess.PIPE, stderr=subprocess.STDOUT,
                           timeout=timeout, text=True)
    except subprocess.TimeoutExpired:
        raise MachineryError("TLC timeout on %s" % module)
    out = p.stdout
    stats = {}
    m = re.search(r"(\d+) states generated, (\d+) distinct states found", out)
    if m:
        stats["generated"] = int(m.group(1))
        stats["distinct"] = int(m.group(2))
    m = re.search(r"depth of the complete state graph search is (\d+)", out)
    if m:
        stats["depth"] = int(m.group(1))
    stats["exit"] = p.returncode
    return out, stats


def tlc_printed_json(out, tag):
    """Lines printed by PrintT(ToJson([tag |-> ..., ...])) come out as a quoted JSON string."""
    res = []
    for line in out.splitlines():
        line = line.strip()
        if line.startswith('"{') and tag in line:
            try:
                rec = json.loads(json.loads(line))
            except Exception:
                continue
            if rec.get("tag") == tag:
                res.append(rec)
    return res


# ---------------------------------------------------------------------------------------
# driver: build and run
# ---------------------------------------------------------------------------------------
def build_driver(work, defs, tags="verif", race=False):
    d = work.sub("build")
    shutil.copytree(os.path.join(HARNESS, "driver"), os.path.join(d, "driver"))
    for f in ("go.mod", "go.sum"):
        shutil.copy(os.path.join(HARNESS, f), d)
    if REPO != "/repo":
        gm = open(os.path.join(d, "go.mod")).read().replace("=> /repo", "=> " + REPO)
        open(os.path.join(d, "go.mod"), "w").write(gm)
    # go.sum: the repository's own sums plus the harness's (apache/thrift, from the module cache)
    with open(os.path.join(d, "go.sum"), "w") as fh:
        fh.write(open(os.path.join(REPO, "go.sum")).read())
        fh.write(open(os.path.join(HARNESS, "go.sum")).read())
    with open(os.path.join(d, "driver", "types_gen.go"), "w") as fh:
        fh.write(typegen.gen_source(defs))
    defs_path = os.path.join(d, "defs.json")
    with open(defs_path, "w") as fh:
        json.dump(defs, fh)
    binp = os.path.join(d, "driver.bin")
    cmd = ["go", "build", "-tags", tags, "-o", binp]
    if race:
        cmd.append("-race")
    cmd.append("./driver")
    p = subprocess.run(cmd, cwd=d, env=GOENV, stdout=subprocess.PIPE, stderr=subprocess.STDOUT, text=True)
    if p.returncode != 0:
        raise MachineryError("driver build failed:\n" + p.stdout[-4000:])
    return binp, defs_path


EV_OF_OP = {"size": "Size", "encode": "Encode", "encsweep": "Encode", "decode": "Decode", "gc": "Recheck", "deep": "Deep", "reject": "Reject", "legacy": "Legacy", "allocs": "Allocs", "par": "Par", "gated": "Gated", "scale": "Scale", "cmpout": "CmpOut", "repeat": "Repeat", "walk": "Walk", "recheck": "Recheck", "clone": "Recheck", "overwrite": "Recheck", "drop": "Recheck"}


def run_driver(work, binp, defs_path, scenarios, env=None, maxstack=0, step_timeout=None):
    """Execute the scenarios; returns the list of trace records (dicts, Intent lines removed,
    crash / timeout observations synthesised for steps the child did not survive)."""
    d = work.sub("run")
    scen_path = os.path.join(d, "scen.ndjson")
    with open(scen_path, "w") as fh:
        for sc in scenarios:
            fh.write(json.dumps(sc, separators=(",", ":")) + "\n")
    out_path = os.path.join(d, "trace.ndjson")
    skip = 0
    records = []
    restarts = 0
    attributed = 0
    e = dict(os.environ)
    e["GORACE"] = "halt_on_error=1 exitcode=66"
    if env:
        e.update(env)
    while skip < len(scenarios):
        if os.path.exists(out_path):
            os.remove(out_path)
        cmd = [binp, "-defs", defs_path, "-scen", scen_path, "-out", out_path, "-skip", str(skip)]
        if maxstack:
            cmd += ["-maxstack", str(maxstack)]
        p = subprocess.run(cmd, env=e, stdout=subprocess.PIPE, stderr=subprocess.PIPE)
        lines = []
        if os.path.exists(out_path):
            with open(out_path) as fh:
                for ln in fh:
                    ln = ln.strip()
                    if not ln:
                        continue
                    try:
                        lines.append(json.loads(ln))
                    except Exception:
                        pass  # torn last line of a dying child
        ended = bool(lines) and lines[-1].get("ev") == "End"
        pending = None
        for rec in lines:
            if rec.get("ev") == "Intent":
                pending = rec
            elif rec.get("ev") == "StepEnd":
                pending = None
            elif rec.get("ev") == "End":
                pass
            else:
                records.append(rec)
        if ended:
            break
        if p.returncode == 4:
            raise MachineryError("driver failed: " + p.stderr.decode(errors="replace")[-2000:])
        restarts += 1
        if restarts > 60:
            # the child keeps dying.  Deaths inside a step have been recorded as observations of that step and are
            # judged like any other outcome; the rest of the batch is not run.  If no death could be attributed to a
            # step there is nothing to judge: a machinery failure.
            if attributed == 0:
                raise MachineryError("driver keeps dying (no death inside a step)")
            break
        if pending is None and not lines:
            # the process died before it executed anything (package initialisation): that is an observation
            # about the first step of the batch under this environment; nothing else of the batch can run
            sc = scenarios[skip]
            st0 = sc["steps"][0]
            records.append({"ev": "Scenario", "scen": skip, "sid": sc["sid"], "prop": sc.get("prop", ""), "vals": sc.get("vals", [])})
            records.append({"scen": skip, "sid": sc["sid"], "step": 0, "ev": EV_OF_OP.get(st0.get("op"), "Unknown"),
                            "ty": st0.get("ty", ""), "v": st0.get("v", 0), "buflen": 0, "orig": -1, "in": st0.get("in", []),
                            "pattern": "", "entry": st0.get("entry", ""), "arg": st0.get("arg", "ptr"), "class": "", "rep": 0,
                            "call": st0.get("call", ""), "calls": 0, "d": 1 << 30, "levels": 1 << 30, "len": 0,
                            "obs": {"out": "crash", "rc": p.returncode, "at": "process start-up",
                                    "stderr": p.stderr.decode(errors="replace")[:600]}})
            break
        if pending is None:
            # died between steps: attribute nothing, resume behind the last scenario seen
            last = max([r.get("scen", skip) for r in lines if "scen" in r] + [skip])
            skip = last + 1
            continue
        si, k = pending["scen"], pending["step"]
        sc = scenarios[si]
        st = sc["steps"][k]
        outcome = "timeout" if p.returncode == 3 else ("race" if p.returncode == 66 else "crash")
        rec = {"scen": si, "sid": sc["sid"], "step": k, "ev": EV_OF_OP.get(st.get("op"), "Unknown"),
               "ty": st.get("ty", ""), "v": st.get("v", 0), "buflen": 0, "orig": st.get("orig", -1),
               "in": st.get("in", []), "pattern": st.get("pattern", ""), "entry": st.get("entry", ""), "arg": st.get("arg", "ptr"), "class": st.get("class", ""), "rep": 0, "call": st.get("call", ""), "arg2": 0, "calls": st.get("calls", 0), "d": 1 << 30, "levels": 1 << 30, "len": 0,
               "obs": {"out": outcome, "rc": p.returncode,
                       "stderr": p.stderr.decode(errors="replace")[:600]}}
        records.append(rec)
        attributed += 1
        skip = si + 1
    return records


# ---------------------------------------------------------------------------------------
# judge: TLC validates the recorded trace line by line
# ---------------------------------------------------------------------------------------
TRACE_CFG = "SPECIFICATION TraceSpec\nPOSTCONDITION TraceAccepted\nCHECK_DEADLOCK FALSE\n"


def shard_records(records, nshards):
    """Split at Scenario boundaries into <= nshards pieces of similar byte size."""
    groups, cur = [], []
    for r in records:
        if r.get("ev") == "Scenario" and cur:
            groups.append(cur)
            cur = []
        cur.append(r)
    if cur:
        groups.append(cur)
    sized = [(len(json.dumps(g)), g) for g in groups]
    total = sum(s for s, _ in sized)
    target = max(1, total // max(1, nshards))
    shards, acc, accsz = [], [], 0
    for s, g in sized:
        acc.extend(g)
        accsz += s
        if accsz >= target and len(shards) < nshards - 1:
            shards.append(acc)
            acc, accsz = [], 0
    if acc:
        shards.append(acc)
    return shards


def judge(work, defs_path, records, module="ApiTrace", nshards=None, timeout=3000):
    """Returns (rejections, stats).  A rejection is the record TLC printed plus 'line'
    (the trace record it refers to)."""
    if not records:
        return [], {"lines": 0, "states": 0, "transitions": 0, "shards": 0, "classes": {}}
    if not nshards:
        # measured on this machine: one TLC run judges ~500 lines/s, and many concurrent JVMs
        # slow each other down badly, so shards are few and large
        total = sum(len(json.dumps(r)) for r in records)
        nshards = max(1, min(8, total // 2500000))
    shards = shard_records(records, nshards)

    def one(ix_sh):
        ix, sh = ix_sh
        d = work.sub("judge%d" % ix)
        tp = os.path.join(d, "trace.ndjson")
        with open(tp, "w") as fh:
            for r in sh:
                fh.write(json.dumps(r, separators=(",", ":")) + "\n")
        out, st = tlc(d, module, TRACE_CFG, env={"VERIF_DEFS": defs_path, "VERIF_TRACE": tp},
                      workers=1, timeout=timeout, heap="3g", light=True)
        summ = tlc_printed_json(out, "SUMMARY")
        if st.get("exit") != 0 or not summ or summ[0]["lines"] != len(sh) or summ[0]["consumed"] != len(sh):
            keep = os.path.join(VERIF, "work", "last-judge-failure.txt")
            with open(keep, "w") as fh:
                i = out.find("Error:")
                fh.write(out[max(0, i - 200):i + 6000] + "\n...\n" + out[-6000:])
            raise MachineryError("trace judge failed on shard %d (TLC exit %s); see %s\n%s" % (
                ix, st.get("exit"), keep, out[-1500:]))
        rej = tlc_printed_json(out, "REJECT")
        for r in rej:
            r["line"] = sh[r["l"] - 1]
        st["classes"] = summ[0].get("classes", {})
        return rej, st

    with ThreadPoolExecutor(max_workers=8) as ex:
        results = list(ex.map(one, enumerate(shards)))
    rejections = [r for rej, _ in results for r in rej]
    classes = {}
    for _, st in results:
        cl = st.get("classes", {})
        if isinstance(cl, dict):
            for k, v in cl.items():
                classes[k] = classes.get(k, 0) + v
    stats = {"lines": len(records), "shards": len(shards), "classes": classes,
             "states": sum(st.get("distinct", 0) for _, st in results),
             "transitions": sum(st.get("generated", 0) for _, st in results)}
    return rejections, stats


# ---------------------------------------------------------------------------------------
# known findings, replay files, evidence
# ---------------------------------------------------------------------------------------
def load_known():
    p = os.path.join(VERIF, "known_findings.json")
    if not os.path.exists(p):
        return {"known": [], "fixed": []}
    return json.load(open(p))


def match_known(known, prop, sigs):
    """sigs: set of signature strings computed for a rejection.  A known entry matches when
    its property equals prop and its 'signature' is one of them."""
    for k in known.get("known", []):
        if k["property"] == prop and k["signature"] in sigs:
            return k
    return None


def write_replay(prop, name, payload):
    d = os.path.join(OUT, "replay")
    os.makedirs(d, exist_ok=True)
    safe = re.sub(r"[^A-Za-z0-9_.-]", "_", name)[:80]
    p = os.path.join(d, "%s-%s.json" % (prop, safe))
    with open(p, "w") as fh:
        json.dump(payload, fh)
    return p


def write_evidence(prop, tier, seed, coverage, wall, violations, assumptions, level="model_checking"):
    d = os.path.join(OUT, "evidence")
    os.makedirs(d, exist_ok=True)
    ev = {"property_id": prop, "tier": tier, "seed": seed, "level": level, "coverage": coverage,
          "assumptions": assumptions, "wall_s": round(wall, 2), "violations": violations}
    with open(os.path.join(d, prop + ".json"), "w") as fh:
        json.dump(ev, fh, indent=1)


def stable_hash(obj):
    return hashlib.sha1(json.dumps(obj, sort_keys=True).encode()).hexdigest()[:12]


# ---------------------------------------------------------------------------------------
# messages from the reference encoder (spec/MsgGen.tla)
# ---------------------------------------------------------------------------------------
def gen_messages(work, defs_path, cases, timeout=1800):
    """cases: list of {cid, w, val, ord, trail, mut}; returns ({cid: [bytes, ...]}, tlc stats)"""
    d = work.sub("msggen")
    cp = os.path.join(d, "cases.ndjson")
    op = os.path.join(d, "msgs.ndjson")
    with open(cp, "w") as fh:
        for c in cases:
            fh.write(json.dumps(c, separators=(",", ":")) + "\n")
    out, st = tlc(d, "MsgGen", "INIT Init\nNEXT Next\nPOSTCONDITION Emit\nCHECK_DEADLOCK FALSE\n",
                  env={"VERIF_DEFS": defs_path, "VERIF_CASES": cp, "VERIF_OUT": op}, workers=1,
                  timeout=timeout, heap="6g")
    if st.get("exit") != 0 or not os.path.exists(op):
        keep = os.path.join(VERIF, "work", "last-msggen-failure.txt")
        with open(keep, "w") as fh:
            fh.write(out[-20000:])
        raise MachineryError("MsgGen failed (TLC exit %s); see %s\n%s" % (st.get("exit"), keep, out[-1500:]))
    res = {}
    with open(op) as fh:
        for ln in fh:
            ln = ln.strip()
            if ln:
                r = json.loads(ln)
                res[r["cid"]] = r["msgs"]
    return res, st


def write_defs(work, defs):
    d = work.sub("defs")
    p = os.path.join(d, "defs.json")
    with open(p, "w") as fh:
        json.dump(defs, fh)
    return p


# ---------------------------------------------------------------------------------------
# self-check of the reference semantics (spec/CodecMC.tla)
# ---------------------------------------------------------------------------------------
CODECMC_CFG = ("INIT Init\nNEXT Next\nINVARIANT SizeIsLen\nINVARIANT ParseEnc\nINVARIANT RoundTrip\nINVARIANT OrderFree\n"
               "INVARIANT PrefixBad\nINVARIANT TrailFree\nCHECK_DEADLOCK FALSE\n")


def codec_selfcheck(work, defs, timeout=1500):
    """TLC model-checks the theorems of the oracle on the given universe; a counterexample is
    an error in the specification (machinery failure, exit 2), never a verdict on the code"""
    defs_path = write_defs(work, defs)
    d = work.sub("codecmc")
    out, st = tlc(d, "CodecMC", CODECMC_CFG, env={"VERIF_DEFS": defs_path}, workers=8, timeout=timeout, heap="8g")
    if st.get("exit") != 0 or "No error has been found" not in out:
        keep = os.path.join(VERIF, "work", "last-codecmc-failure.txt")
        with open(keep, "w") as fh:
            fh.write(out[-30000:])
        raise MachineryError("CodecMC: a theorem of the reference semantics fails (specification error); see " + keep)
    return st
