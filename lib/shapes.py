"""Go struct definitions as data ("shapes") for spec/TagLang.tla: field name, exported,
embedded, Go type tree, frugal / thrift tag values as bytes."""
import re

import typegen

BUILTIN = {"bool", "int", "int8", "int16", "int32", "int64", "uint", "uint8", "uint16", "uint32", "uint64", "uintptr",
           "float32", "float64", "complex64", "complex128", "string", "byte"}
ABSENT = [-1]


def b(s):
    return list(s.encode())


def parse_gotype(src, structs=()):
    """tiny parser for the Go type expressions the generators use"""
    src = src.strip()
    if src.startswith("*"):
        return {"g": "ptr", "name": [], "sname": "", "e": parse_gotype(src[1:], structs)}
    if src.startswith("[]"):
        return {"g": "slice", "name": [], "sname": "", "e": parse_gotype(src[2:], structs)}
    m = re.match(r"^\[(\d+)\](.*)$", src)
    if m:
        return {"g": "array", "name": [], "sname": "", "e": parse_gotype(m.group(2), structs)}
    if src.startswith("map["):
        depth, i = 0, 3
        while True:
            if src[i] == "[":
                depth += 1
            elif src[i] == "]":
                depth -= 1
                if depth == 0:
                    break
            i += 1
        return {"g": "map", "name": [], "sname": "", "k": parse_gotype(src[4:i], structs), "v": parse_gotype(src[i + 1:], structs)}
    if src == "byte":
        return {"g": "uint8", "name": b("uint8"), "sname": ""}
    if src in BUILTIN:
        return {"g": src, "name": b(src), "sname": ""}
    if src == "Enum":
        return {"g": "int64", "name": b("Enum"), "sname": ""}
    TYPEDEFS = {"MyI32": "int32", "MyI64": "int64", "MyStr": "string", "MyBool": "bool", "MyF64": "float64", "MyI8": "int8",
                "My_Str": "string", "My_Enum": "int64", "EnumI": "int", "MyInt": "int"}
    if src in TYPEDEFS:
        return {"g": TYPEDEFS[src], "name": b(src), "sname": ""}
    if re.match(r"^[A-Za-z_][A-Za-z0-9_]*$", src):
        # a named struct type of the universe
        return {"g": "struct", "name": b(src), "sname": src}
    return {"g": "other", "name": [], "sname": ""}   # chan, func, interface{}, unsafe.Pointer ...


def shape_of_struct(d):
    fields = []
    for f in d["fields"]:
        for x in f.get("before", []):
            fields.append(extra_shape(x))
        gt = parse_gotype(typegen.gotype(f["t"]))
        ftag, ttag = ABSENT, ABSENT
        if "ftag" in f or "ttag" in f:
            if f.get("ftag") is not None:
                ftag = b(f["ftag"])
            if f.get("ttag") is not None:
                ttag = b(f["ttag"])
        elif "rawtag" in f:
            m = re.search(r'frugal:"([^"]*)"', f["rawtag"])
            if m:
                ftag = b(m.group(1))
            m = re.search(r'thrift:"([^"]*)"', f["rawtag"])
            if m:
                ttag = b(m.group(1))
        else:
            m = re.search(r'frugal:"([^"]*)"', typegen.field_tag(f))
            ftag = b(m.group(1))
        fields.append({"name": f["name"], "exported": True, "anon": False, "gt": gt, "ftag": ftag, "ttag": ttag})
    for x in d.get("after", []):
        fields.append(extra_shape(x))
    return {"fields": fields}


def extra_shape(line):
    """extra struct member lines: 'X int32', 'y int32 `frugal:"9,default,i32"`', 'Leaf' (embedded)"""
    m = re.match(r'^\s*(\*?\w+)(?:\s+([^`]+?))?\s*(?:`(.*)`)?\s*$', line)
    name, ty, tag = m.group(1), m.group(2), m.group(3) or ""
    anon = ty is None
    if anon:
        ty = name
        name = name.lstrip("*")
    ftag, ttag = ABSENT, ABSENT
    mm = re.search(r'frugal:"([^"]*)"', tag)
    if mm:
        ftag = b(mm.group(1))
    mm = re.search(r'thrift:"([^"]*)"', tag)
    if mm:
        ttag = b(mm.group(1))
    return {"name": b(name), "exported": name[0].isupper(), "anon": anon, "gt": parse_gotype(ty.strip()), "ftag": ftag, "ttag": ttag}
