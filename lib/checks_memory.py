"""C06 (decoded objects own their memory) and C14 (nocopy fields view the input exactly).

Histories: decode and keep an object, walk its memory, overwrite the input, decode further
messages through the same pooled decoder, force collections with garbage churn (child run
with GODEBUG=clobberfree=1), re-check the kept values, walk all kept objects together.  The
walk records raw extents / alignment residues / offsets; spec/Api.tla JWalk and JRecheck
judge them (aligned, pairwise disjoint, disjoint from the input unless nocopy, nocopy views at
exactly the offset the reference decoder locates, values stable)."""
import random

import universe as U
import suite
import vlib
from suite import Batch
from universe import T, L, SET, M, ST, field, struct

ASSUME = [
    "memory facts come from a reflect+unsafe walk of the decoded object (harness/driver/memwalk.go); addresses are rank-compressed, nothing is judged in the driver",
    "latent corruption is made visible by GODEBUG=clobberfree=1, garbage churn around forced collections, overwriting the input and decoding more messages through the same pooled decoder; this observes executions, it does not prove memory safety",
]
RULE06 = ("types mixing alignments 1/2/4/8, strings, binaries, lists of scalars / strings / structs / pointers, maps, nested and by-value structs, holders x messages whose "
          "string and list sizes cross the 256-byte and 2048-byte allocator thresholds x histories (walk, overwrite input, 1-3 further decodes, gc with churn, recheck, joint walk); "
          "distinct = distinct (type, message, history)")
RULE14 = ("types mixing nocopy and ordinary string/binary fields (plain and optional pointer, any id order, nested structs, holders) x messages with value lengths "
          "0,1,255,256,257,5000 in four field orders x histories (walk, overwrite, recheck); distinct = distinct (type, message, order)")


def mem_universe():
    d = U.leaf_structs()
    d["Mix"] = struct([field(1, "default", T("i8")), field(2, "default", L(T("i16"))), field(3, "default", L(T("i32"))),
                       field(4, "default", L(T("i64"))), field(5, "default", T("string")), field(6, "default", L(T("i8"))),
                       field(7, "default", T("binary")), field(8, "default", L(T("double"))), field(9, "default", L(T("bool"))),
                       field(10, "optional", T("i16", True)), field(11, "optional", T("i64", True)), field(12, "optional", T("string", True)),
                       field(13, "default", L(T("string"))), field(14, "default", L(T("enum")))])
    d["Ptrs"] = struct([field(1, "default", L(ST("Leaf", True))), field(2, "default", L(ST("Fix", False))), field(3, "default", M(T("string"), ST("Leaf", True))),
                        field(4, "default", M(T("i32"), L(T("string")))), field(5, "optional", ST("Ptrs", True)), field(6, "default", ST("LeafUnk", False)),
                        field(7, "default", L(L(T("i16")))), field(8, "default", L(T("binary"))), field(9, "default", M(ST("Fix", True), T("string"))),
                        field(10, "default", L(M(T("string"), T("i32")))), field(11, "default", SET(M(T("i32"), T("string")))),
                        field(12, "default", L(L(T("string")))), field(13, "default", M(T("string"), L(T("binary")))),
                        field(14, "optional", T("i64", True)), field(15, "optional", T("string", True)), field(16, "optional", T("i16", True)),
                        field(17, "default", L(SET(T("double")))), field(18, "default", M(T("i64"), M(T("string"), T("string")))),
                        field(19, "default", M(T("string"), L(T("i64")))), field(20, "default", M(T("i32"), T("binary"))),
                        field(21, "default", L(L(T("i64"))))], unk=True)
    return U.with_defaults(d)


def nocopy_universe():
    d = {}
    d["NIn"] = struct([field(1, "default", T("string"), nocopy=True), field(2, "default", T("string")), field(3, "optional", T("binary"), nocopy=True)], unk=True)
    d["NC"] = struct([field(5, "default", T("string"), nocopy=True), field(1, "default", T("binary"), nocopy=True), field(3, "default", T("string")),
                      field(4, "default", T("binary")), field(2, "optional", T("string", True), nocopy=True), field(6, "optional", T("string", True)),
                      field(7, "default", ST("NIn", True)), field(8, "default", ST("NIn", False)), field(9, "default", L(T("string"))), field(10, "default", T("i32")),
                      # every other carrier of strings / binaries: none of them may reference the buffer
                      field(11, "default", M(T("string"), T("i32"))), field(12, "default", M(T("string"), T("string"))), field(13, "default", L(T("binary"))),
                      field(14, "default", SET(T("string"))), field(15, "optional", M(T("i32"), T("binary"))), field(16, "default", M(T("string"), ST("NIn", True)))])
    # the option spelled after an omitted annotation, in both tag carriers, plain and optional pointer
    nt = [field(1, "default", T("string"), nocopy=True), field(2, "default", T("binary"), nocopy=True), field(3, "optional", T("string", True), nocopy=True),
          field(4, "default", T("string")), field(5, "required", T("string"), nocopy=True)]
    nt[0]["ftag"] = "1,default,,nocopy"
    nt[1]["ttag"] = "blob,2,default,,nocopy"
    nt[2]["ftag"] = "3 , optional , , nocopy "
    nt[4]["ftag"] = "5,required,,nocopy"
    d["NCt"] = struct(nt)
    d["NCtN"] = struct([field(1, "default", ST("NCt", True)), field(2, "default", L(ST("NCt", True))), field(3, "default", T("string"), nocopy=True)])
    # nocopy strings with non-empty declared defaults (a value equal to the default is still a view of the input)
    dn = [field(1, "default", T("string"), nocopy=True), field(2, "optional", T("string", True), nocopy=True), field(3, "default", T("binary"), nocopy=True),
          field(4, "default", T("string"))]
    dn[0]["def"] = list(b"eu-west-1")
    dn[1]["def"] = {"p": 1, "v": list(b"n/a")}
    dn[2]["def"] = {"nil": False, "b": [7, 7, 7]}
    dn[3]["def"] = list(b"plain")
    d["NCd"] = struct(dn, init=True)
    d["NCdN"] = struct([field(1, "default", ST("NCd", True)), field(2, "default", L(ST("NCd", True))), field(3, "default", T("string"), nocopy=True)])
    # writers that know one / two more fields than the holder type NIn
    d["WNIn1"] = struct(d["NIn"]["fields"] + [field(9, "default", T("string"))])
    d["WNIn2"] = struct(d["NIn"]["fields"] + [field(9, "default", T("string")), field(10, "default", T("binary"))])
    return U.with_defaults(d)


def sized_value(s, defs, n, salt):
    """value whose strings / binaries / lists have about n bytes"""
    def go(t, depth, sl):
        if t.get("ptr"):
            return {"p": 1, "v": go(dict(t, ptr=False), depth - 1, sl + 1)} if depth > 0 else {"p": 0}
        k = t["k"]
        if k in U.GOW:
            return U.BOUNDARY[k][(sl + 1) % len(U.BOUNDARY[k])]
        if k == "string":
            return U.strbytes(n + sl % 3, sl)
        if k == "binary":
            return {"nil": False, "b": U.strbytes(max(0, n - sl % 2), sl + 5)}
        if k in ("list", "set"):
            w = U.GOW.get(t["e"]["k"], 0)
            cnt = max(1, n // w) if w and not t["e"].get("ptr") else min(4, 1 + n % 5)
            if depth <= 0:
                cnt = 0
            items = [go(t["e"], depth - 1, sl + j) for j in range(cnt)]
            for j, it in enumerate(items):      # list of lists: a non-empty inner list followed by an empty one
                if j % 2 == 1 and isinstance(it, dict) and "items" in it:
                    items[j] = {"nil": False, "items": []}
            return {"nil": False, "items": items}
        if k == "map":
            cnt = 0 if depth <= 0 else min(4, 2 + n % 3)
            ents = [[U.key_n(t["kt"], j + sl, defs), go(t["vt"], depth - 1, sl + j)] for j in range(cnt)]
            # a non-empty container value followed by an empty one (the decoder reuses one slot for all values)
            for j, e in enumerate(ents):
                if j % 2 == 1 and isinstance(e[1], dict) and "items" in e[1]:
                    e[1] = {"nil": False, "items": []}
                if j % 2 == 1 and isinstance(e[1], dict) and "b" in e[1]:
                    e[1] = {"nil": False, "b": []}
            return {"nil": False, "ents": ents}
        if k == "struct":
            unk = []
            if defs[t["s"]].get("unk"):
                # one unknown field (sl even) or several (sl odd)
                unk = U.unknown_bytes([sl]) if sl % 2 == 0 else U.unknown_bytes([sl, sl + 1, sl + 3])
            return {"f": {f["key"]: go(f["t"], depth - 1, sl + i) for i, f in enumerate(defs[t["s"]]["fields"])}, "unk": unk}
    return go({"k": "struct", "ptr": False, "s": s}, 3, salt)


def span_model(work, res, quick):
    """exhaustive TLC run of the allocator model"""
    import os
    d = work.sub("span")
    cfg = "SPECIFICATION Spec\nCONSTANT MaxReq = %d\nINVARIANT Aligned\nINVARIANT InBlock\nINVARIANT Disjoint\nCHECK_DEADLOCK FALSE\n" % (3 if quick else 4)
    out, st = vlib.tlc(d, "Span", cfg, workers=8, timeout=1500, heap="10g")
    if st.get("exit") != 0 or "No error has been found" not in out:
        keep = os.path.join(vlib.VERIF, "work", "last-span-failure.txt")
        open(keep, "w").write(out[-20000:])
        raise vlib.MachineryError("Span.tla: TLC reports a problem in the allocator model (a lead, not a verdict); see " + keep)
    res.tlc_states += st.get("distinct", 0)
    res.tlc_transitions += st.get("generated", 0)
    res.extra["span_model"] = {"max_requests": 3 if quick else 4, "distinct_states": st.get("distinct"), "generated": st.get("generated"),
                               "invariants": ["Aligned", "InBlock", "Disjoint"], "result": "hold"}


def run06(prop, tier, seed, work):
    res = suite.Result(prop, tier, seed)
    span_model(work, res, tier == "quick")
    rng = random.Random(seed * 5003 + 19)
    quick = tier == "quick"
    defs = mem_universe()
    defs_path = vlib.write_defs(work, defs)
    sizes = [0, 1, 7, 9, 100, 255, 256, 257, 700, 2040, 2048, 2049, 4100]
    if quick:
        sizes = [0, 1, 9, 255, 257, 2047, 2049]
    cases = []
    for s in ("Mix", "Ptrs"):
        for i, n in enumerate(sizes):
            cases.append({"cid": "%s|%d" % (s, n), "w": s, "val": sized_value(s, defs, n, i), "ord": ["asc", "desc", "rot", "evod"][i % 4], "trail": [], "mut": "none"})
    msgs, st = vlib.gen_messages(work, defs_path, cases)
    res.tlc_states += st.get("distinct", 0)
    res.tlc_transitions += st.get("generated", 0)
    allm = [(c["w"], msgs[c["cid"]][0]) for c in cases]
    scen = []
    nh = 40 if quick else 2000
    for h in range(nh):
        (ty, m) = allm[h % len(allm)]
        steps = [{"op": "decode", "ty": ty, "in": m, "dest": "fresh", "hooks": True}, {"op": "walk", "objs": [0]}]
        main = 0            # step index of the decode that last filled the main object
        kept = []           # other objects still alive (besides main)
        plan = rng.sample(["overwrite", "more", "gc", "more", "gc", "reuse", "bad", "bad"], rng.randrange(2, 9))
        for a in plan:
            if a == "bad":
                # a decode that fails midway (truncated message) through the same pooled decoder, then a good one
                (t2, m2) = rng.choice(allm)
                cut = rng.randrange(1, max(2, len(m2)))
                steps.append({"op": "decode", "ty": t2, "in": m2[:cut], "dest": "fresh", "hooks": True})
                steps.append({"op": "recheck", "obj": main, "after": "decode"})
                (t3, m3) = rng.choice(allm)
                steps.append({"op": "decode", "ty": t3, "in": m3, "dest": "fresh", "hooks": True})
                kept.append(len(steps) - 1)
                steps.append({"op": "recheck", "obj": main, "after": "decode"})
            elif a == "reuse":
                # the caller copies the struct (keeps its pointers), then decodes the next message into the same target
                steps.append({"op": "clone", "obj": main})
                ck = len(steps) - 1
                (t2, m2) = rng.choice([x for x in allm if x[0] == ty])
                steps.append({"op": "decode", "ty": ty, "in": m2, "dest": "into", "obj": main, "hooks": True})
                main = len(steps) - 1
                steps.append({"op": "recheck", "obj": ck, "after": "reuse"})
                kept.append(ck)
            elif a == "overwrite":
                steps.append({"op": "overwrite", "obj": main, "byte": 255})
                steps.append({"op": "recheck", "obj": main, "after": "overwrite"})
            elif a == "more":
                (t2, m2) = rng.choice(allm)
                steps.append({"op": "decode", "ty": t2, "in": m2, "dest": "fresh", "hooks": True})
                kept.append(len(steps) - 1)
                if rng.random() < 0.4:
                    steps.append({"op": "drop", "obj": kept.pop()})
                steps.append({"op": "recheck", "obj": main, "after": "decode"})
            else:
                steps.append({"op": "gc"})
                steps.append({"op": "recheck", "obj": main, "after": "gc"})
        kept = [main] + kept
        steps.append({"op": "walk", "objs": kept})
        for k in kept:
            steps.append({"op": "recheck", "obj": k, "after": "end"})
        sid = "C06-h%d-%s" % (h, ty)
        scen.append({"sid": sid, "prop": prop, "vals": [], "steps": steps, "tags": [], "dkey": sid})
    suite.run_batches(res, work, [Batch("memory", defs, scen, env={"GODEBUG": "clobberfree=1"})], want_props={"C06", "C03", "C05"})
    return suite.finish(res, RULE06, ASSUME)


def run14(prop, tier, seed, work):
    res = suite.Result(prop, tier, seed)
    rng = random.Random(seed * 7001 + 23)
    quick = tier == "quick"
    defs = nocopy_universe()
    defs_path = vlib.write_defs(work, defs)
    lens = [0, 1, 2, 7, 8, 255, 256, 257, 2047, 2048, 2049, 5000] if not quick else [0, 1, 3, 256, 300]
    cases = []
    n = 0
    for ln in lens:
        for variant in range(3 if quick else 6):
            def sv(k):
                return U.strbytes(ln if (k + variant) % 3 else max(0, ln - 1), k)
            inner = lambda a: {"f": {"1": sv(a), "2": sv(a + 1), "3": {"nil": variant == 2, "b": [] if variant == 2 else sv(a + 2)}}, "unk": []}
            v = {"f": {"5": sv(1), "1": {"nil": False, "b": sv(2)}, "3": sv(3), "4": {"nil": False, "b": sv(4)},
                       "2": {"p": 1, "v": sv(5)} if variant != 1 else {"p": 0}, "6": {"p": 1, "v": sv(6)},
                       "7": {"p": 1, "v": inner(7)} if variant != 2 else {"p": 0}, "8": inner(9),
                       "9": {"nil": False, "items": [sv(11), sv(12)]}, "10": [0, 0, 0, 7],
                       "11": {"nil": False, "ents": [[sv(13) + [1], [0, 0, 0, 1]], [sv(14) + [2], [0, 0, 0, 2]]]},
                       "12": {"nil": False, "ents": [[sv(15) + [3], sv(16)]]},
                       "13": {"nil": False, "items": [{"nil": False, "b": sv(17)}, {"nil": False, "b": sv(18)}]},
                       "14": {"nil": False, "items": [sv(19) + [4]]},
                       "15": {"nil": variant == 1, "ents": [] if variant == 1 else [[[0, 0, 0, 9], {"nil": False, "b": sv(20)}]]},
                       "16": {"nil": False, "ents": [[sv(21) + [5], {"p": 1, "v": inner(22)}]]}}, "unk": []}
            for o in ["asc", "desc", "rot", "evod"]:
                n += 1
                cases.append({"cid": "NC|%d|%d|%s" % (ln, variant, o), "w": "NC", "val": v, "ord": o, "trail": [9, 9] if n % 2 else [], "mut": "none"})
    msgs, st = vlib.gen_messages(work, defs_path, cases)
    res.tlc_states += st.get("distinct", 0)
    res.tlc_transitions += st.get("generated", 0)
    # holder types: one / two unknown fields (the retained bytes are a copy, never a view)
    hcases = []
    for ln in lens:
        for wn, extra in (("WNIn1", {"9": U.strbytes(ln, 3)}), ("WNIn2", {"9": U.strbytes(ln, 4), "10": {"nil": False, "b": U.strbytes(max(1, ln // 2), 5)}})):
            for o in ["asc", "desc"]:
                f = {"1": U.strbytes(ln, 1), "2": U.strbytes(ln + 1, 2), "3": {"nil": False, "b": U.strbytes(3, 6)}}
                f.update(extra)
                hcases.append({"cid": "NH|%s|%d|%s" % (wn, ln, o), "w": wn, "val": {"f": f, "unk": []}, "ord": o, "trail": [], "mut": "none"})
    hmsgs, st2 = vlib.gen_messages(work, defs_path, hcases)
    res.tlc_states += st2.get("distinct", 0)
    res.tlc_transitions += st2.get("generated", 0)
    scen = []
    for c in hcases:
        m = hmsgs[c["cid"]][0]
        steps = [{"op": "decode", "ty": "NIn", "in": m, "dest": "fresh"}, {"op": "walk", "objs": [0]},
                 {"op": "overwrite", "obj": 0, "byte": 255}, {"op": "recheck", "obj": 0, "after": "overwrite"}]
        sid = "C14-" + c["cid"]
        scen.append({"sid": sid, "prop": prop, "vals": [], "steps": steps, "tags": ["holder"], "dkey": sid})
    # typeless spellings of the option
    tcases = []
    for ln in lens:
        inner = {"f": {"1": U.strbytes(ln, 1), "2": {"nil": False, "b": U.strbytes(ln + 1, 2)}, "3": {"p": 1, "v": U.strbytes(ln, 3)}, "4": U.strbytes(ln, 4), "5": U.strbytes(ln + 2, 5)}, "unk": []}
        tcases.append({"cid": "NT|%d" % ln, "w": "NCtN", "val": {"f": {"1": {"p": 1, "v": inner}, "2": {"nil": False, "items": [{"p": 1, "v": inner}]}, "3": U.strbytes(ln, 6)}, "unk": []},
                       "ord": ["asc", "desc"][ln % 2], "trail": [], "mut": "none"})
    tmsgs, st3 = vlib.gen_messages(work, defs_path, tcases)
    res.tlc_states += st3.get("distinct", 0)
    res.tlc_transitions += st3.get("generated", 0)
    for c in tcases:
        steps = [{"op": "decode", "ty": "NCtN", "in": tmsgs[c["cid"]][0], "dest": "fresh"}, {"op": "walk", "objs": [0]},
                 {"op": "overwrite", "obj": 0, "byte": 255}, {"op": "recheck", "obj": 0, "after": "overwrite"}]
        sid = "C14-" + c["cid"]
        scen.append({"sid": sid, "prop": prop, "vals": [], "steps": steps, "tags": ["typeless-spelling"], "dkey": sid})
    # values equal to the declared defaults of nocopy fields; zero-length values decoded into an object that held views
    dcases = []
    eq = {"f": {"1": list(b"eu-west-1"), "2": {"p": 1, "v": list(b"n/a")}, "3": {"nil": False, "b": [7, 7, 7]}, "4": list(b"plain")}, "unk": []}
    ne = {"f": {"1": list(b"other"), "2": {"p": 1, "v": list(b"x")}, "3": {"nil": False, "b": [1]}, "4": list(b"q")}, "unk": []}
    em = {"f": {"1": [], "2": {"p": 1, "v": []}, "3": {"nil": False, "b": []}, "4": []}, "unk": []}
    for lbl, inner in (("eq", eq), ("ne", ne), ("em", em)):
        dcases.append({"cid": "ND|" + lbl, "w": "NCdN", "val": {"f": {"1": {"p": 1, "v": inner}, "2": {"nil": False, "items": [{"p": 1, "v": inner}, {"p": 1, "v": eq}]},
                                                                   "3": [] if lbl == "em" else list(b"top")}, "unk": []}, "ord": "asc", "trail": [], "mut": "none"})
        dcases.append({"cid": "NDt|" + lbl, "w": "NCd", "val": inner, "ord": "desc", "trail": [], "mut": "none"})
    dmsgs, st4 = vlib.gen_messages(work, defs_path, dcases)
    res.tlc_states += st4.get("distinct", 0)
    res.tlc_transitions += st4.get("generated", 0)
    for c in dcases:
        ty = "NCdN" if c["cid"].startswith("ND|") else "NCd"
        steps = [{"op": "decode", "ty": ty, "in": dmsgs[c["cid"]][0], "dest": "fresh"}, {"op": "walk", "objs": [0]},
                 {"op": "overwrite", "obj": 0, "byte": 255}, {"op": "recheck", "obj": 0, "after": "overwrite"}]
        sid = "C14-" + c["cid"]
        scen.append({"sid": sid, "prop": prop, "vals": [], "steps": steps, "tags": ["declared-defaults"], "dkey": sid})
    for ty, a, b in (("NCd", "NDt|ne", "NDt|em"), ("NCd", "NDt|eq", "NDt|em"), ("NCdN", "ND|ne", "ND|em"), ("NCd", "NDt|em", "NDt|ne")):
        steps = [{"op": "decode", "ty": ty, "in": dmsgs[a][0], "dest": "fresh"},
                 {"op": "decode", "ty": ty, "in": dmsgs[b][0], "dest": "into", "obj": 0},      # the caller reuses the object
                 {"op": "walk", "objs": [1]}]
        sid = "C14-reuse-%s-%s" % (a, b)
        scen.append({"sid": sid, "prop": prop, "vals": [], "steps": steps, "tags": ["reused-destination"], "dkey": sid})
    # very long values in fields without the option (beyond every small-object size class)
    lv = lambda n, k: U.strbytes(n, k)
    big = {"f": {"5": lv(9, 1), "1": {"nil": False, "b": lv(40000, 2)}, "3": lv(40000, 3), "4": {"nil": False, "b": lv(33000, 4)}, "2": {"p": 0}, "6": {"p": 1, "v": lv(70000, 6)},
                 "7": {"p": 0}, "8": {"f": {"1": lv(1, 1), "2": lv(35000, 2), "3": {"nil": True, "b": []}}, "unk": []},
                 "9": {"nil": False, "items": [lv(33000, 11), lv(2, 12)]}, "10": [0, 0, 0, 7],
                 "11": {"nil": False, "ents": []}, "12": {"nil": False, "ents": [[lv(33000, 15), lv(34000, 16)]]}, "13": {"nil": False, "items": [{"nil": False, "b": lv(36000, 17)}]},
                 "14": {"nil": False, "items": [lv(33000, 19)]}, "15": {"nil": True, "ents": []}, "16": {"nil": False, "ents": []}}, "unk": []}
    bmsgs, st5 = vlib.gen_messages(work, defs_path, [{"cid": "NCbig", "w": "NC", "val": big, "ord": "rot", "trail": [], "mut": "none"}])
    res.tlc_states += st5.get("distinct", 0)
    res.tlc_transitions += st5.get("generated", 0)
    scen.append({"sid": "C14-long-values", "prop": prop, "vals": [], "tags": ["long-values"], "dkey": "long-values",
                 "steps": [{"op": "decode", "ty": "NC", "in": bmsgs["NCbig"][0], "dest": "fresh"}, {"op": "walk", "objs": [0]},
                           {"op": "overwrite", "obj": 0, "byte": 255}, {"op": "recheck", "obj": 0, "after": "overwrite"}]})
    # a decode that fails inside the message, then the complete message: the second result is like the first-ever one
    for ci, c in enumerate(cases):
        if (ci % 5 if quick else ci % 2):      # 5 is coprime to the 4 field orders: all of them come up
            continue
        m = msgs[c["cid"]][0]
        cuts = sorted(set([max(1, len(m) * j // 9) for j in range(1, 9)] + [8, 9, 10, 12]))
        steps = []
        for cut in cuts:
            if cut < len(m):
                steps.append({"op": "decode", "ty": "NC", "in": m[:cut], "dest": "fresh"})
                steps.append({"op": "decode", "ty": "NC", "in": m, "dest": "fresh"})
                steps.append({"op": "walk", "objs": [len(steps) - 1]})
                steps.append({"op": "drop", "obj": len(steps) - 2})
        sid = "C14-failfirst-" + c["cid"]
        scen.append({"sid": sid, "prop": prop, "vals": [], "steps": steps, "tags": ["fail-then-ok"], "dkey": sid})
    for c in cases:
        m = msgs[c["cid"]][0]
        steps = [{"op": "decode", "ty": "NC", "in": m, "dest": "fresh"}, {"op": "walk", "objs": [0]},
                 {"op": "overwrite", "obj": 0, "byte": 255}, {"op": "recheck", "obj": 0, "after": "overwrite"},
                 {"op": "gc"}, {"op": "recheck", "obj": 0, "after": "gc"}, {"op": "walk", "objs": [0]}]
        sid = "C14-" + c["cid"]
        scen.append({"sid": sid, "prop": prop, "vals": [], "steps": steps, "tags": [], "dkey": sid})
    suite.run_batches(res, work, [Batch("nocopy", defs, scen, env={"GODEBUG": "clobberfree=1"})], want_props={"C14", "C03"})
    return suite.finish(res, RULE14, ASSUME)
