"""C05: malformed input.  Inputs are mutations (defined in TLA+, spec/MsgGen.tla) of
reference-encoded messages: every proper prefix, single-byte substitutions, length-field
overwrites; thorough adds splices and seeded random byte strings.  The judge requires
success exactly when the reference decoder accepts, an error otherwise, never a panic /
crash / timeout, bounded allocation and time."""
import random

import universe as U
import suite
import vlib
from suite import Batch
from universe import T, L, SET, M, ST, field, struct

ASSUME = [
    "well-formedness is decided by the TLA+ reference decoder (spec/Codec.tla Dec, spec/Thrift.tla SkipD)",
    "inputs are placed directly before an inaccessible page, so reads past the input fault (guard page)",
    "allocation is measured as runtime.MemStats.TotalAlloc delta; bound 4096*len+1MiB",
]


def decoder_universe():
    defs = U.leaf_structs()
    defs["Sc"] = struct([field(1, "required", T("bool")), field(2, "default", T("i8")), field(3, "default", T("i16")),
                         field(4, "required", T("i32")), field(5, "default", T("i64")), field(6, "default", T("double")),
                         field(7, "default", T("enum")), field(8, "default", T("string")), field(9, "default", T("binary")),
                         field(10, "optional", T("i32", True)), field(11, "optional", T("string", True)),
                         field(12, "default", T("string"), nocopy=True), field(13, "default", T("binary"), nocopy=True)])
    defs["Co"] = struct([field(1, "default", L(T("i32"))), field(2, "default", SET(T("string"))),
                         field(3, "default", M(T("i16"), T("string"))), field(4, "default", M(T("string"), T("i64"))),
                         field(5, "default", L(T("bool"))), field(6, "default", L(T("binary"))),
                         field(7, "default", M(T("i32"), T("i32")))])
    defs["St"] = struct([field(1, "default", ST("Leaf", True)), field(2, "default", ST("LeafReq", False)),
                         field(3, "default", L(ST("Leaf", True))), field(4, "default", M(T("string"), ST("LeafReq", True))),
                         field(5, "optional", M(ST("Leaf", True), T("i8"))), field(6, "default", L(ST("LeafUnk", False))),
                         field(7, "default", L(L(T("i16")))), field(8, "default", M(T("i8"), L(T("string"))))], unk=True)
    defs["Re"] = struct([field(1, "default", T("i32")), field(2, "optional", ST("Re", True)),
                         field(3, "default", L(ST("Re", True)))])
    # large well-formed containers of every element family (time and memory proportional to the input)
    defs["Big"] = struct([field(1, "default", SET(T("i64"))), field(2, "default", L(T("string"))), field(3, "default", M(T("i32"), T("i64"))),
                          field(4, "default", L(ST("Leaf", True))), field(5, "default", L(T("i32"))), field(6, "default", SET(T("string"))),
                          field(7, "default", M(T("string"), T("string"))), field(8, "default", L(ST("Leaf", False))), field(9, "default", L(T("binary"))),
                          field(10, "default", M(T("i64"), ST("Leaf", True))), field(11, "default", SET(T("i32"))), field(12, "default", L(L(T("i16"))))])
    return U.with_defaults(defs)


STR12 = [{"lit": [0, 0, 0, 12]}, {"ctr": 8}, {"lit": [97, 98, 99, 100]}]
LEAF = [{"lit": [8, 0, 1]}, {"ctr": 4}, {"lit": [0]}]
# shape -> (field id, container header without the count, element parts)
SHAPES = {
    "set_i64": (1, [14, 0, 1, 10], [{"ctr": 8}]),
    "list_string": (2, [15, 0, 2, 11], STR12),
    "map_i32_i64": (3, [13, 0, 3, 8, 10], [{"ctr": 4}, {"ctr": 8}]),
    "list_pstruct": (4, [15, 0, 4, 12], LEAF),
    "list_i32": (5, [15, 0, 5, 8], [{"ctr": 4}]),
    "set_string": (6, [14, 0, 6, 11], STR12),
    "map_string_string": (7, [13, 0, 7, 11, 11], STR12 + STR12),
    "list_vstruct": (8, [15, 0, 8, 12], LEAF),
    "list_binary": (9, [15, 0, 9, 11], STR12),
    "map_i64_pstruct": (10, [13, 0, 10, 10, 12], [{"ctr": 8}] + LEAF),
    "set_i32": (11, [14, 0, 11, 8], [{"ctr": 4}]),
    "list_list_i16": (12, [15, 0, 12, 15], [{"lit": [6, 0, 0, 0, 2]}, {"ctr": 2}, {"ctr": 2}]),
}


def build_scaled(shape, count):
    """the same builder as harness/driver/scale.go"""
    fid, prefix, parts = SHAPES[shape]
    out = list(prefix) + list(count.to_bytes(4, "big"))
    for i in range(count):
        for p in parts:
            out += list(i.to_bytes(8, "big"))[8 - p["ctr"]:] if "ctr" in p else p["lit"]
    return out + [0]


def scale_scenarios(prop, quick):
    scen = []
    base = 16000
    for shape, (fid, prefix, parts) in SHAPES.items():
        steps = [{"op": "decode", "ty": "Big", "in": build_scaled(shape, n), "dest": "fresh"} for n in (0, 1, 3)]   # checked byte by byte
        steps.append({"op": "scale", "ty": "Big", "shape": shape, "prefix": prefix, "elem": parts, "suffix": [0], "counts": [base, base * 4, base * 16]})
        # afterwards, on the same recycled decoder state: a small message many times
        steps.append({"op": "repeat", "ty": "Big", "in": build_scaled(shape, 20), "times": 3000 if quick else 60000})
        sid = "C05-scale-" + shape
        scen.append({"sid": sid, "prop": prop, "vals": [], "steps": steps, "tags": ["scale", shape], "dkey": sid})
    return scen


thorough_values = False


def small_values(s, defs):
    t = {"k": "struct", "ptr": False, "s": s}
    out = [("b1", U.base_value(t, defs, 2, 0, 1)), ("b2", U.base_value(t, defs, 3, 3, 2))]
    # every container present but empty: the header (type codes, count 0) is all there is to check
    ev = U.zero_struct(s, defs)
    for f in defs[s]["fields"]:
        if f["t"]["k"] in ("list", "set", "map") and not f["t"].get("ptr"):
            ev["f"][f["key"]] = U.zero_elem(f["t"], defs)
    if any(f["t"]["k"] in ("list", "set", "map") for f in defs[s]["fields"]):
        out.append(("e", ev))
    if thorough_values:
        out += [("b3", U.base_value(t, defs, 3, 1, 3)), ("b4", U.base_value(t, defs, 2, 5, 1)), ("z", U.zero_struct(s, defs))]
    if defs[s].get("unk"):
        # holder types: messages that carry unknown fields (recorded while decoding, copied out at the end)
        for lbl, v in list(out):
            v2 = {"f": v["f"], "unk": U.unknown_bytes([0, 1, 3, 8, 9, 10])}
            out.append((lbl + "u", v2))
    return out


RULE = ("every proper prefix, every single-byte substitution from {00,01,7f,80,ff,+1,-1} and every 4-byte window overwritten "
        "with {ffffffff,7fffffff,00000000,00010000,80000000} of reference-encoded messages for destination types covering every "
        "decoder branch (scalars, required, pointers, nocopy, lists/sets/maps of fixed/string/struct elements, nested and by-value "
        "structs, holders, recursion); thorough adds splices and random bytes; distinct = distinct input byte strings per type")


def run(prop, tier, seed, work):
    res = suite.Result(prop, tier, seed)
    rng = random.Random(seed * 6007 + 5)
    quick = tier == "quick"
    defs = decoder_universe()
    defs_path = vlib.write_defs(work, defs)
    global thorough_values
    thorough_values = not quick
    cases = []
    types = ["Sc", "Co", "St", "Re", "LeafUnk", "LeafReq"]
    for s in types:
        for (vl, v) in small_values(s, defs):
            muts = ["prefix", "subst", "len"] if (vl in ("b1", "b1u", "e") or not quick) else ["prefix"]
            for mut in muts:
                cases.append({"cid": "%s|%s|%s" % (s, vl, mut), "w": s, "val": v, "ord": "asc", "trail": [], "mut": mut})
    msgs, st = vlib.gen_messages(work, defs_path, cases)
    res.tlc_states += st.get("distinct", 0)
    res.tlc_transitions += st.get("generated", 0)
    scen = []
    seen = set()
    for c in cases:
        s = c["w"]
        ms = msgs[c["cid"]]
        if quick and len(ms) > 1500:
            ms = rng.sample(ms, 1500)
        steps = []
        for m in ms:
            key = (s, bytes(m))
            if key in seen:
                continue
            seen.add(key)
            steps.append({"op": "decode", "ty": s, "in": m, "dest": "fresh", "guard": True})
            if c["mut"] in ("prefix", "len") and len(steps) % 2:
                # the same bytes as the front of a larger buffer (spare capacity behind them, as in a reused read buffer)
                steps.append({"op": "decode", "ty": s, "in": m, "dest": "fresh", "slack": 256})
        # chunks of 200 inputs per scenario (a crash loses the rest of one chunk only)
        for i in range(0, len(steps), 200):
            sid = "C05-%s-%d" % (c["cid"], i)
            scen.append({"sid": sid, "prop": prop, "vals": [], "steps": steps[i:i + 200], "tags": [c["mut"]], "dkey": sid})
    # every input over the token alphabet of spec/Decoder.tla up to a length bound (lazy-input model,
    # TLC breadth-first); the model is also checked to refine the reference decoder on each of them
    bounds = {"Sc": 7, "Co": 8, "St": 8, "Re": 9, "LeafUnk": 9, "LeafReq": 9} if quick else \
             {"Sc": 10, "Co": 12, "St": 12, "Re": 13, "LeafUnk": 13, "LeafReq": 13, "Leaf": 13}
    model = {}
    for ty, ml in bounds.items():
        inputs, st = decoder_model(work, defs_path, ty, ml)
        res.tlc_states += st.get("distinct", 0)
        res.tlc_transitions += st.get("generated", 0)
        model[ty] = {"max_len": ml, "distinct_states": st.get("distinct"), "inputs": len(inputs), "exhaustive": True,
                     "invariants": ["Bounded", "Refines", "AllocBounded"]}
        steps = []
        for m in inputs:
            key = (ty, bytes(m))
            if key in seen:
                continue
            seen.add(key)
            steps.append({"op": "decode", "ty": ty, "in": m, "dest": "fresh", "guard": True})
        for i in range(0, len(steps), 400):
            sid = "C05-model-%s-%d" % (ty, i)
            scen.append({"sid": sid, "prop": prop, "vals": [], "steps": steps[i:i + 400], "tags": ["decoder-model"], "dkey": sid})
    res.extra["decoder_model"] = model
    if not quick:
        scen.extend(random_inputs(prop, defs, types, rng, 150000))
    # Go's coverage-guided fuzzer as one more INPUT SOURCE (never a judge): seeded with the well-formed
    # messages, it leaves a corpus of inputs that reach new code paths of the decoder; every one of them
    # is then executed by the driver and judged by the trace specification like any other input
    fz, finfo = ([], {"skipped": "thorough tier only"}) if quick else \
        fuzz_inputs(work, defs, [(c["w"], msgs[c["cid"]][0]) for c in cases if msgs[c["cid"]]], 240)
    res.extra["go_fuzz"] = finfo
    steps = []
    for (ty, m) in fz:
        key = (ty, bytes(m))
        if key in seen or ty not in types + ["Leaf"]:
            continue
        seen.add(key)
        steps.append({"op": "decode", "ty": ty, "in": m, "dest": "fresh", "guard": True})
    for i in range(0, len(steps), 200):
        sid = "C05-gofuzz-%d" % i
        scen.append({"sid": sid, "prop": prop, "vals": [], "steps": steps[i:i + 200], "tags": ["go-fuzz"], "dkey": sid})
    scen.extend(scale_scenarios(prop, quick))
    res.extra["inputs"] = len(seen)
    batches = [Batch("mutations", defs, scen)]
    suite.run_batches(res, work, batches)
    res.distinct = seen
    return suite.finish(res, RULE, ASSUME)


def decoder_model(work, defs_path, ty, maxlen):
    """exhaustive TLC run of spec/Decoder.tla for one destination type; returns the generated inputs"""
    import os
    d = work.sub("decoder")
    cfg = ("SPECIFICATION Spec\nCONSTANT MaxLen = %d\nINVARIANT Bounded\nINVARIANT Refines\nINVARIANT AllocBounded\n"
           "INVARIANT Emit\nCHECK_DEADLOCK FALSE\n" % maxlen)
    out, st = vlib.tlc(d, "Decoder", cfg, env={"VERIF_DEFS": defs_path, "VERIF_TY": ty}, workers=8, timeout=2400, heap="10g")
    if st.get("exit") != 0 or "No error has been found" not in out:
        keep = os.path.join(vlib.VERIF, "work", "last-decoder-model-failure.txt")
        i = out.find("Error")
        open(keep, "w").write(out[max(0, i - 500):i + 20000])
        raise vlib.MachineryError("Decoder.tla (%s): the layer-B decoder model does not refine the reference decoder, or TLC failed "
                                  "(a model-level lead, not a verdict on the code); see %s" % (ty, keep))
    inputs = [r["bytes"] for r in vlib.tlc_printed_json(out, "INPUT")]
    return inputs, st


def random_inputs(prop, defs, types, rng, n):
    scen = []
    steps = []
    for i in range(n):
        s = rng.choice(types)
        ln = rng.choice([0, 1, 2, 3, 4, 7, 8, 16, 40])
        # bias the bytes towards type codes and small numbers
        m = [rng.choice([0, 0, 1, 2, 3, 4, 6, 8, 10, 11, 12, 13, 14, 15, 255, rng.randrange(256)]) for _ in range(ln)]
        steps.append({"op": "decode", "ty": s, "in": m, "dest": "fresh", "guard": True})
        if len(steps) == 200:
            sid = "C05-random-%d" % i
            scen.append({"sid": sid, "prop": prop, "vals": [], "steps": steps, "tags": ["random"], "dkey": sid})
            steps = []
    return scen


def fuzz_inputs(work, defs, seeds, seconds):
    """run `go test -fuzz FuzzDecode` (harness/driver/fuzz_test.go) for a while and return the corpus it
    found as (type, message) pairs.  A fuzzer that cannot run is reported in the evidence, not an error."""
    import ast
    import glob
    import json
    import os
    import subprocess
    binp, defs_path = vlib.build_driver(work, defs)
    d = os.path.dirname(binp)
    names = sorted(defs.keys())
    seedfile = os.path.join(d, "fuzzseeds.json")
    sl = []
    for (ty, m) in seeds[:400]:
        if ty in names and len(m) < 4000:
            sl.append([names.index(ty)] + list(m))
    json.dump(sl, open(seedfile, "w"))
    cache = os.path.join(d, "fuzzcache")
    env = dict(vlib.GOENV, VERIF_DEFS=defs_path, VERIF_FUZZ_SEEDS=seedfile)
    cmd = ["go", "test", "-tags", "verif", "-vet=off", "./driver", "-run", "^$", "-fuzz", "^FuzzDecode$", "-fuzztime", "%ds" % seconds,
           "-test.fuzzcachedir=" + cache]
    info = {"seconds": seconds, "seeds": len(sl)}
    try:
        p = subprocess.run(cmd, cwd=d, env=env, stdout=subprocess.PIPE, stderr=subprocess.STDOUT, text=True, timeout=seconds + 600)
        info["exit"] = p.returncode
        tail = [ln for ln in p.stdout.splitlines() if ln.startswith("fuzz:")]
        info["last_status"] = tail[-1] if tail else p.stdout[-300:]
    except subprocess.TimeoutExpired:
        info["exit"] = "timeout"
    out = []
    files = glob.glob(os.path.join(cache, "**", "FuzzDecode", "*"), recursive=True) + \
        glob.glob(os.path.join(d, "driver", "testdata", "fuzz", "FuzzDecode", "*"))
    for f in files:
        try:
            lines = open(f).read().splitlines()
            if not lines or not lines[0].startswith("go test fuzz v1"):
                continue
            lit = lines[1].strip()
            if not lit.startswith("[]byte(") or not lit.endswith(")"):
                continue
            body = lit[len("[]byte("):-1]
            # a Go interpreted string literal; its escapes (\xNN, \n, \", ...) are valid Python bytes escapes
            data = ast.literal_eval("b" + body)
        except Exception:
            continue
        if len(data) >= 1:
            out.append((names[data[0] % len(names)], list(data[1:])))
    info["corpus"] = len(out)
    return out, info
