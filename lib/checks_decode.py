"""C03 C09 C10 C11 (and the mutation half of C05): decode-side properties.  Every message is
written by the reference encoder in TLA+ (spec/MsgGen.tla) from a writer value; frugal decodes
it with a reader type; TLC judges the result against the lenient reference decoder."""
import random

import universe as U
import evolve
import suite
import vlib
from suite import Batch

ORDS = ["asc", "desc", "rot", "evod"]
TRAILS = [[], [0], [1, 2, 3], [12, 0, 1]]

ASSUME = [
    "messages are produced by the TLA+ reference encoder (spec/MsgGen.tla), expected results by the TLA+ reference decoder (spec/Codec.tla Dec); frugal's own encoder is not involved except in two-hop scenarios",
    "harness projection Go value <-> abstract value is trusted",
    "TLC and the CommunityModules Json module are trusted",
]


def writer_values(w, defs, quick, rng):
    sizes = [0, 1, 3] if quick else [0, 1, 2, 9, 28]
    strlens = [0, 1, 5] if quick else [0, 1, 255, 257, 2049]
    vals = list(U.struct_variants(w, defs, sizes, strlens))
    if quick and len(vals) > 60:
        # always kept: base, zero, and every variant of a struct-typed field (nil / full / sparse nested value)
        byk = {f["key"]: f for f in defs[w]["fields"]}
        must = [x for x in vals[2:] if "=" in x[0] and byk.get(x[0].lstrip("z").split("=")[0], {}).get("t", {}).get("k") == "struct"]
        head, rest = vals[:2] + must, [x for x in vals[2:] if x not in must]
        rng.shuffle(rest)
        vals = head + rest[:max(0, 60 - len(head))]
    return vals


def pair_cases(prop, defs, pairs, quick, rng, per_pair):
    """-> (cases for MsgGen, scenario builders keyed by cid)"""
    cases, plans = [], {}
    wvals = {}
    n = 0
    for (w, t, label) in pairs:
        if w not in wvals:
            wvals[w] = writer_values(w, defs, quick, rng)
        vals = wvals[w]
        pp = len(vals) if label.startswith("same") else per_pair     # the unchanged schema gets every value
        picks = vals if pp >= len(vals) else ([vals[0]] + rng.sample(vals[1:], pp - 1))
        if prop == "C03" and label.startswith("same"):
            # larger values (many elements, strings beyond the small-object threshold): decoded, then kept across collections
            wt = {"k": "struct", "ptr": False, "s": w}
            for j, (cs, ln) in enumerate(((20, 40), (6, 300), (40, 9))):
                picks = picks + [("big%d" % j, U.lengthen(wt, U.base_value(wt, defs, 2, 11 + j, cs), ln, defs))]
        for (vl, v) in picks:
            n += 1
            cid = "%s-%s-%s-%s-%d" % (prop, w, t, vl, n)
            cases.append({"cid": cid, "w": w, "val": v, "ord": ORDS[n % 4], "trail": TRAILS[(n // 4) % 4], "mut": "none"})
            plans[cid] = (w, t, label, v, n)
    return cases, plans


def decode_scenario(prop, cid, t, msg, dest_mode, defs, w=None, wv=None, label="", two_hop=False, extra_tags=(), gc=False):
    vals = []
    st = {"op": "decode", "ty": t, "in": msg, "dest": dest_mode}
    if dest_mode == "val":
        vals.append(U.base_value({"k": "struct", "ptr": False, "s": t}, defs, 2, 7))
        st["dv"] = 0
    steps = [st]
    if gc:
        # the decoded value must survive collections and reuse of freed memory (all of it is reachable from the object)
        steps += [{"op": "gc"}, {"op": "recheck", "obj": 0, "after": "gc"}]
    if two_hop:
        # re-encode the decoded object with the reader's schema, then read it with the writer's
        vals.append(wv)
        # the intermediary reuses its receive buffer before forwarding
        steps.append({"op": "overwrite", "obj": 0, "byte": 238})
        steps.append({"op": "size", "ty": t, "obj": 0})
        steps.append({"op": "encode", "ty": t, "obj": 0, "buf": {"mode": "rel", "n": 0, "extra": 0}})
        steps.append({"op": "decode", "ty": w, "from": 3, "dest": "fresh", "orig": len(vals) - 1, "hops": 2})
    return {"sid": cid, "prop": prop, "vals": vals, "steps": steps, "tags": [label] + list(extra_tags), "dkey": cid}


def run_pairs(prop, tier, seed, work, res, defs, pairs, per_pair, two_hop=False, name="pairs"):
    rng = random.Random(seed * 104729 + 11)
    quick = tier == "quick"
    defs_path = vlib.write_defs(work, defs)
    cases, plans = pair_cases(prop, defs, pairs, quick, rng, per_pair)
    msgs, st = vlib.gen_messages(work, defs_path, cases)
    res.tlc_states += st.get("distinct", 0)
    res.tlc_transitions += st.get("generated", 0)
    scen = []
    if prop == "C03":
        # before anything else: a rejected definition that nests the readers' leaf types (at lower ids than its unsupported
        # part); the first use of every reader that nests them comes afterwards and must find them intact
        # (mid-level readers first: types that nest further structs and are themselves nested, by pointer, in outer readers)
        def nests_struct(x):
            return any("struct" in U.type_sig(f["t"]) or f["t"]["k"] == "struct" for f in defs[x]["fields"])
        rd = [x for x in sorted(defs, key=lambda n: (len(n), n)) if x.startswith("T") and x[1:].isdigit()]
        leafs = [x for x in rd if nests_struct(x)][:30] + [x for x in rd if not nests_struct(x)][:30]
        bad = {"id": 2, "key": "2", "req": "default", "t": {"k": "i32", "ptr": False, "gotype": "uint32"}, "nocopy": False,
               "name": list(b"F2"), "rawtag": 'frugal:"2,default"', "opaque": True}
        defs["ZBadInner"] = U.struct([U.field(1, "default", U.T("i32")), bad])
        defs["ZBadShare"] = U.struct([U.field(j + 1, "optional", U.ST(x, True)) for j, x in enumerate(leafs[:60])] + [U.field(9999, "default", U.ST("ZBadInner", True))])
        defs["ZBadInner"]["invalid"] = True
        defs["ZBadShare"]["invalid"] = True
        scen.append({"sid": "C03-rejected-first", "prop": prop, "vals": [], "tags": ["rejected-first"], "dkey": "rejected-first",
                     "steps": [{"op": "reject", "ty": "ZBadShare", "entry": e, "arg": "ptr", "class": "interlude", "repeat": 1} for e in ("decode", "encode")]})
    last_msg = {}
    for cid, (w, t, label, v, n) in plans.items():
        m = msgs[cid][0]
        dest = ["fresh", "zero", "val"][n % 3]
        # two-hop preservation needs a reader that keeps unknown fields at every level it drops them
        th = two_hop and defs[t].get("unk", False) and dest != "val"
        tags = []
        if th:
            import checks_codec
            tags = checks_codec.struct_tags(w, v, defs)
        scen.append(decode_scenario(prop, cid, t, m, dest, defs, w=w, wv=v, label=label, two_hop=th, extra_tags=tags,
                                    gc=(not th and (n % 4 == 0 or "-big" in cid))))
        other = last_msg.get(t)
        last_msg[t] = m
        if prop == "C03" and other is not None and other != m and n % 5 == 0 and len(m) > 12:
            # a kept result, a decode that fails half way, further decodes of OTHER messages: the kept result is what it was
            seq = [{"op": "decode", "ty": t, "in": m, "dest": "fresh"}, {"op": "decode", "ty": t, "in": m[: len(m) * 2 // 3], "dest": "fresh"},
                   {"op": "decode", "ty": t, "in": other, "dest": "fresh"}, {"op": "decode", "ty": t, "in": other[: len(other) // 2], "dest": "fresh"},
                   {"op": "decode", "ty": t, "in": other, "dest": "zero"}, {"op": "recheck", "obj": 0, "after": "failed-and-further-decodes"},
                   {"op": "recheck", "obj": 2, "after": "failed-and-further-decodes"}]
            scen.append({"sid": cid + "-seq", "prop": prop, "vals": [], "steps": seq, "tags": [label, "kept-across-failure"], "dkey": cid + "-seq"})
        if prop == "C03" and label.startswith("same") and dest != "val":
            # the unchanged schema: every value also over a fully populated destination (nothing of the old
            # nested values may remain where the message carries a sparser one)
            scen.append(decode_scenario(prop, cid + "-val", t, m, "val", defs, w=w, wv=v, label=label))
    return Batch(name, defs, scen, env={"GODEBUG": "clobberfree=1"})


RULES = {
    "C03": "(writer schema W, reader type T) pairs related by drop / retype / renumber / add / requiredness edits at top level and inside containers x values of W x field order (ascending, descending, rotated, even-odd at every struct level) x trailing bytes x destination (fresh, zero, populated); messages from the TLA+ reference encoder; distinct = distinct (W, T, value, order, trail, destination)",
    "C09": "readers declaring one boundary id required x writer values carrying exactly one id (all pairs present a / required b), all ids, none; wrong wire type occurrences; required fields in list elements, map keys/values, nested structs; predecessor decodes setting the same bits; distinct = distinct (reader, message)",
    "C10": "types with default initialisers: encoder presence of every optional kind for values equal / different from the declared default; decode of messages omitting fields into fresh / zero / populated destinations and nested structs with declared defaults; distinct = distinct (type, value / message, destination)",
    "C11": "reader types with and without the unknown-fields holder at top level and nested x writer values x field orders; holder contents judged by the reference decoder, re-encode judged by the strict parser, second hop decoded with the writer schema compared with the original value; distinct = distinct (W, T, value, order)",
}


def run(prop, tier, seed, work):
    res = suite.Result(prop, tier, seed)
    rng = random.Random(seed * 7907 + 3)
    quick = tier == "quick"
    batches = []
    if prop in ("C03", "C11"):
        defs, pairs = evolve.build_pairs(rng, quick)
        if prop == "C11":
            # readers that differ from the writer by dropped / retyped / renumbered fields
            pairs = [p for p in pairs if not p[2].startswith(("added-required", "all-required"))]
        per = (3 if quick else 10)
        batches.append(run_pairs(prop, tier, seed, work, res, defs, pairs, per, two_hop=(prop == "C11")))
        if prop == "C11":
            pairs_mc(work, res, defs, pairs, quick)
            batches.append(holder_history_batch(prop, work, res, quick))
        if not quick:
            # further rounds: other retype choices, other value samples, other order / trail / destination assignments
            for r in range(1, 4):
                rng2 = random.Random(seed * 7907 + 3 + 1000 * r)
                defs2, pairs2 = evolve.build_pairs(rng2, False)
                if prop == "C11":
                    pairs2 = [p for p in pairs2 if not p[2].startswith(("added-required", "all-required"))]
                batches.append(run_pairs(prop, tier, seed + 100 * r, work, res, defs2, pairs2, 12, two_hop=(prop == "C11"), name="pairs%d" % r))
    if prop == "C03":
        # well-formed messages nested deeply but inside the conventional limit: accepted, whatever produces the nesting
        import checks_depth
        dd = checks_depth.depth_universe()
        dscen = []
        for ty, pat in (("Re", "struct"), ("Re", "list"), ("Re", "mapval"), ("ReK", "mapkey"), ("ReU", "struct"), ("ReU", "ustruct"), ("Re", "ulist")):
            sid = "C03-deep-%s-%s" % (ty, pat)
            dscen.append({"sid": sid, "prop": prop, "vals": [], "tags": ["deep-legal", pat], "dkey": sid,
                          "steps": [{"op": "deep", "ty": ty, "pattern": pat, "depths": list(range(14, 49, 2)) + [47, 48], "bisect": False}]})
        for (pfx, pat) in (("struct", "list"), ("list", "struct"), ("mapval", "list"), ("struct", "mapval")):
            for pre in (3, 10, 20):
                sid = "C03-deep-mix-%s*%d+%s" % (pfx, pre, pat)
                dscen.append({"sid": sid, "prop": prop, "vals": [], "tags": ["deep-legal", "mix"], "dkey": sid,
                              "steps": [{"op": "deep", "ty": "Re", "prefix": pfx, "pre": pre, "pattern": pat, "depths": [5, 10, 15, 20, 25], "bisect": False}]})
        batches.append(Batch("deep-legal", dd, dscen))
    if prop == "C09":
        batches.extend(required_batches(prop, tier, seed, work, res, quick))
    if prop == "C10":
        batches.extend(defaults_batches(prop, tier, seed, work, res, quick, rng))
    suite.run_batches(res, work, batches)
    return suite.finish(res, RULES[prop], ASSUME)


def holder_history_batch(prop, work, res, quick):
    """holder contents after decodes that failed once unknown fields had been recorded (missing required field, truncation):
    the next holder holds exactly the unknown fields of ITS message"""
    T, L, M, ST, field, struct = U.T, U.L, U.M, U.ST, U.field, U.struct
    defs = U.leaf_structs()
    defs["HReq"] = struct([field(3, "required", T("i32")), field(5, "default", T("string"))], unk=True)
    defs["HReqN"] = struct([field(1, "default", L(ST("HReq", True))), field(2, "default", M(T("string"), ST("HReq", False))), field(4, "default", T("i32"))], unk=True)
    # an optional by-value struct with a holder inside a type with declared defaults: its known fields may all be at their
    # defaults while its holder is not empty - it is still written
    defs["HIn"] = struct([field(1, "default", T("i32")), field(2, "default", T("string"))], unk=True)
    hp = struct([field(1, "optional", ST("HIn", False)), field(2, "optional", T("i32")), field(3, "default", ST("HIn", False)), field(4, "optional", ST("HIn", True))], init=True)
    hp["fields"][1]["def"] = [0, 0, 0, 9]
    defs["HPar"] = hp
    defs["WHIn"] = struct([field(1, "default", T("i32")), field(2, "default", T("string")), field(7, "default", T("i64")), field(8, "optional", T("string", True))])
    defs["WHPar"] = struct([field(1, "optional", ST("WHIn", False)), field(2, "optional", T("i32", True)), field(3, "default", ST("WHIn", False)), field(4, "optional", ST("WHIn", True))])
    defs["WH"] = struct([field(1, "default", T("string")), field(2, "default", T("i64")), field(3, "optional", T("i32", True)), field(5, "default", T("string")),
                         field(7, "default", L(T("i16"))), field(9, "optional", T("string", True))])
    defs["WHN"] = struct([field(1, "default", L(ST("WH", True))), field(2, "default", M(T("string"), ST("WH", False))), field(4, "default", T("i32")),
                          field(6, "default", T("string")), field(8, "default", T("double"))])
    U.with_defaults(defs)
    defs_path = vlib.write_defs(work, defs)
    wh = lambda a, req=True, tail=True: {"f": {"1": list(("u%d" % a).encode()) * (1 + a % 3), "2": U.be(a, 8), "3": {"p": 1, "v": U.be(a, 4)} if req else {"p": 0},
                                               "5": list(b"known"), "7": {"nil": False, "items": [U.be(a + j, 2) for j in range(a % 4)]},
                                               "9": {"p": 1, "v": list(b"tail%d" % a)} if tail else {"p": 0}}, "unk": []}
    whn = lambda items, ents: {"f": {"1": {"nil": False, "items": [{"p": 1, "v": x} for x in items]}, "2": {"nil": False, "ents": [[list(("k%d" % j).encode()), x] for j, x in enumerate(ents)]},
                                     "4": U.be(4, 4), "6": list(b"top-unknown"), "8": [64, 9, 33, 251, 84, 68, 45, 24]}, "unk": []}
    cases = []
    for o in ORDS:
        cases.append({"cid": "good|%s" % o, "w": "WH", "val": wh(1), "ord": o, "trail": [], "mut": "none"})
        cases.append({"cid": "good2|%s" % o, "w": "WH", "val": wh(6, tail=False), "ord": o, "trail": [], "mut": "none"})
        cases.append({"cid": "miss|%s" % o, "w": "WH", "val": wh(3, req=False), "ord": o, "trail": [], "mut": "none"})
        cases.append({"cid": "ngood|%s" % o, "w": "WHN", "val": whn([wh(1), wh(2, tail=False)], [wh(5)]), "ord": o, "trail": [], "mut": "none"})
        cases.append({"cid": "nmiss|%s" % o, "w": "WHN", "val": whn([wh(1), wh(2, req=False)], [wh(5), wh(7, req=False)]), "ord": o, "trail": [], "mut": "none"})
    cases.append({"cid": "cut", "w": "WH", "val": wh(2), "ord": "asc", "trail": [], "mut": "prefix"})
    cases.append({"cid": "ncut", "w": "WHN", "val": whn([wh(1)], [wh(3)]), "ord": "desc", "trail": [], "mut": "prefix"})
    msgs, st = vlib.gen_messages(work, defs_path, cases)
    res.tlc_states += st.get("distinct", 0)
    res.tlc_transitions += st.get("generated", 0)
    scen = []
    for top, good, bads in (("HReq", ["good", "good2"], ["miss"]), ("HReqN", ["ngood"], ["nmiss"])):
        fails = [msgs["%s|%s" % (b, o)][0] for b in bads for o in ORDS] + msgs["cut" if top == "HReq" else "ncut"][:: (3 if quick else 1)]
        goods = [msgs["%s|%s" % (g, o)][0] for g in good for o in ORDS]
        steps = []
        for i, bad in enumerate(fails):
            steps.append({"op": "decode", "ty": top, "in": bad, "dest": "fresh"})
            steps.append({"op": "decode", "ty": top, "in": goods[i % len(goods)], "dest": "fresh"})
            # the holder is part of what gets encoded again
            steps.append({"op": "size", "ty": top, "obj": len(steps) - 1})
            if len(steps) >= 90:
                sid = "C11-failfirst-%s-%d" % (top, len(scen))
                scen.append({"sid": sid, "prop": prop, "vals": [], "steps": steps, "tags": ["holder-after-failure"], "dkey": sid})
                steps = []
        if steps:
            sid = "C11-failfirst-%s-%d" % (top, len(scen))
            scen.append({"sid": sid, "prop": prop, "vals": [], "steps": steps, "tags": ["holder-after-failure"], "dkey": sid})
    hin = lambda a, b, c: {"f": {"1": U.be(a, 4), "2": list(b), "7": U.be(c, 8), "8": {"p": 1, "v": list(b"u%d" % c)} if c % 2 else {"p": 0}}, "unk": []}
    pcases = []
    for pi, (x, y, z) in enumerate(((hin(0, b"", 5), hin(0, b"", 6), hin(0, b"", 7)), (hin(1, b"a", 5), hin(0, b"", 0), hin(0, b"", 9)), (hin(0, b"", 0), hin(2, b"", 3), hin(0, b"z", 1)))):
        pcases.append({"cid": "hpar|%d" % pi, "w": "WHPar", "val": {"f": {"1": x, "2": {"p": 0}, "3": y, "4": {"p": 1, "v": z}}, "unk": []}, "ord": ORDS[pi % 4], "trail": [], "mut": "none"})
    pmsgs, stp = vlib.gen_messages(work, defs_path, pcases)
    res.tlc_states += stp.get("distinct", 0)
    res.tlc_transitions += stp.get("generated", 0)
    for c in pcases:
        steps = [{"op": "decode", "ty": "HPar", "in": pmsgs[c["cid"]][0], "dest": "fresh"}, {"op": "size", "ty": "HPar", "obj": 0},
                 {"op": "encode", "ty": "HPar", "obj": 0, "buf": {"mode": "rel", "n": 0, "extra": 0}},
                 {"op": "decode", "ty": "WHPar", "from": 2, "dest": "fresh"}]
        sid = "C11-" + c["cid"]
        scen.append({"sid": sid, "prop": prop, "vals": [], "steps": steps, "tags": ["holder-in-defaulted-parent"], "dkey": sid})
    for top, g1, g2 in (("HReq", "good", "good2"), ("HReq", "good2", "good"), ("HReqN", "ngood", "ngood")):
        for o1, o2 in (("asc", "desc"), ("rot", "asc")):
            steps = [{"op": "decode", "ty": top, "in": msgs["%s|%s" % (g1, o1)][0], "dest": "fresh"},
                     {"op": "clone", "obj": 0},                                        # the caller keeps a copy of the struct (sharing its holder)
                     {"op": "decode", "ty": top, "in": msgs["%s|%s" % (g2, o2)][0], "dest": "into", "obj": 0},
                     {"op": "recheck", "obj": 1, "after": "reuse"}, {"op": "size", "ty": top, "obj": 1}]
            sid = "C11-keptcopy-%s-%s-%s-%s" % (top, g1, o1, o2)
            scen.append({"sid": sid, "prop": prop, "vals": [], "steps": steps, "tags": ["kept-copy"], "dkey": sid})
    return Batch("holder-history", defs, scen)


def pairs_mc(work, res, defs, pairs, quick):
    """spec/PairsMC.tla: the two-hop theorem of the reference semantics on the schema pairs (values enumerated in TLA+)"""
    import json
    import os
    # (the 300-field writer is left to the trace judge: enumerating its one-field variants here takes an hour and says nothing new)
    sel = [(w, t) for (w, t, lbl) in pairs if (w in ("WIn", "WFx", "WScal") if quick else w not in ("WWide", "WOuter"))]
    d = work.sub("pairsmc")
    pp = os.path.join(d, "pairs.json")
    json.dump([[w, t] for (w, t) in sel], open(pp, "w"))
    # only the structs the selected pairs reach (the universe also holds very wide structs that would be evaluated for nothing)
    need, todo = set(), [x for p in sel for x in p]
    while todo:
        x = todo.pop()
        if x in need:
            continue
        need.add(x)

        def refs(t):
            if t.get("k") == "struct":
                todo.append(t["s"])
            for kk in ("e", "kt", "vt"):
                if kk in t:
                    refs(t[kk])
        for f in defs[x]["fields"]:
            refs(f["t"])
    defs_path = vlib.write_defs(work, {k: v for k, v in defs.items() if k in need})
    out, st = vlib.tlc(d, "PairsMC", "INIT PInit\nNEXT PNext\nINVARIANT Forward\nINVARIANT TwoHop\nCHECK_DEADLOCK FALSE\n",
                       env={"VERIF_DEFS": defs_path, "VERIF_PAIRS": pp}, workers=8, timeout=3000, heap="8g")
    if st.get("exit") != 0 or "No error has been found" not in out:
        keep = os.path.join(vlib.VERIF, "work", "last-pairsmc-failure.txt")
        i = out.find("Error")
        open(keep, "w").write(out[max(0, i - 300):i + 20000])
        raise vlib.MachineryError("PairsMC: a schema-evolution theorem of the reference semantics fails (specification error); see " + keep)
    res.tlc_states += st.get("distinct", 0)
    res.tlc_transitions += st.get("generated", 0)
    res.extra["pairs_model"] = {"module": "spec/PairsMC.tla", "theorems": ["Forward", "TwoHop"], "pairs": len(sel),
                                "cases": st.get("distinct", 0), "result": "hold"}


# ---- C09 -------------------------------------------------------------------------------------
def required_batches(prop, tier, seed, work, res, quick):
    ids = evolve.BOUNDARY_IDS if quick else evolve.MORE_IDS
    defs, pairs = evolve.required_universe(ids)
    defs.pop("_ids", None)
    defs_path = vlib.write_defs(work, defs)
    cases, plans = [], {}
    n = 0

    def wval(present):
        return {"f": {str(i): ({"p": 1, "v": U.be(i + 7, 4)} if i in present else {"p": 0}) for i in ids}, "unk": []}
    for (w, t, label) in pairs:
        if w != "WIds":
            continue
        presents = [set(ids), set()] + [{a} for a in ids] + [set(ids) - {a} for a in ids]
        for pr in presents:
            n += 1
            cid = "C09-%s-%d" % (t, n)
            cases.append({"cid": cid, "w": "WIds", "val": wval(pr), "ord": ORDS[n % 4], "trail": [], "mut": "none"})
            plans[cid] = (t, label)
    # nested positions: every subset of {leaf field 1, leaf field 64} at every position
    leafs = []
    for a in (0, 1):
        for b in (0, 1):
            leafs.append({"f": {"1": {"p": a, "v": [0, 0, 0, 5]} if a else {"p": 0},
                                "64": {"p": b, "v": list(b"x")} if b else {"p": 0}}, "unk": []})
    full = leafs[3]
    zero_nest = lambda: {"1": {"nil": False, "items": []}, "2": {"nil": False, "ents": []}, "3": {"p": 0},
                         "4": full, "5": {"nil": True, "ents": []}, "6": {"p": 1, "v": [0, 0, 0, 1]}}
    for li, lf in enumerate(leafs):
        for pos in ("list", "mapval", "ptr", "byval", "mapkey", "top6"):
            f = zero_nest()
            if pos == "list":
                f["1"] = {"nil": False, "items": [{"p": 1, "v": full}, {"p": 1, "v": lf}, {"p": 1, "v": full}]}
            elif pos == "mapval":
                f["2"] = {"nil": False, "ents": [[list(b"a"), {"p": 1, "v": full}], [list(b"b"), {"p": 1, "v": lf}]]}
            elif pos == "ptr":
                f["3"] = {"p": 1, "v": lf}
            elif pos == "byval":
                f["4"] = lf
            elif pos == "mapkey":
                f["5"] = {"nil": False, "ents": [[{"p": 1, "v": lf}, [0, 0, 0, 9]]]}
            elif pos == "top6":
                f["6"] = {"p": 0} if li == 0 else {"p": 1, "v": [0, 0, 0, 3]}
            n += 1
            cid = "C09-nest-%s-%d-%d" % (pos, li, n)
            cases.append({"cid": cid, "w": "WNest", "val": {"f": f, "unk": []}, "ord": ORDS[n % 4], "trail": [], "mut": "none"})
            plans[cid] = ("TNestR", "nested-" + pos)
    # outer required ids missing / present while children carry the same ids
    leaf_full = {"f": {"1": {"p": 1, "v": [0, 0, 0, 5]}, "64": {"p": 1, "v": list(b"x")}}, "unk": []}
    for a in (0, 1):
        for b in (0, 1):
            for pos in ("list", "ptr", "mapval", "all", "none"):
                f = {"1": {"p": 1, "v": [0, 0, 0, 9]} if a else {"p": 0}, "64": {"p": 1, "v": list(b"s")} if b else {"p": 0},
                     "2": {"nil": False, "items": [{"p": 1, "v": leaf_full}] if pos in ("list", "all") else []},
                     "3": {"p": 1, "v": leaf_full} if pos in ("ptr", "all") else {"p": 0},
                     "4": {"nil": False, "ents": [[list(b"k"), {"p": 1, "v": leaf_full}]] if pos in ("mapval", "all") else []}}
                for o in ORDS:
                    n += 1
                    cid = "C09-outer-%d%d-%s-%s-%d" % (a, b, pos, o, n)
                    cases.append({"cid": cid, "w": "WOut", "val": {"f": f, "unk": []}, "ord": o, "trail": [], "mut": "none"})
                    plans[cid] = ("TOutR", "outer-" + pos)
    # required nocopy fields: every subset present
    for a in (0, 1):
        for b in (0, 1):
            f = {"1": {"p": 1, "v": list(b"abc")} if a else {"p": 0}, "2": {"nil": not b, "b": [1, 2] if b else []}, "3": {"p": 1, "v": [0, 0, 0, 1]}}
            for o in ("asc", "desc"):
                n += 1
                cid = "C09-nocopy-%d%d-%s-%d" % (a, b, o, n)
                cases.append({"cid": cid, "w": "WNc", "val": {"f": f, "unk": []}, "ord": o, "trail": [], "mut": "none"})
                plans[cid] = ("TNcR", "required-nocopy")
    # required fields of types with declared defaults
    for a in (0, 1):
        for b in (0, 1):
            ri = {"f": {"1": {"p": 1, "v": [0, 0, 0, 7]} if a else {"p": 0}, "2": {"p": 1, "v": list(b"r")} if b else {"p": 0}, "3": {"p": 0}}, "unk": []}
            n += 1
            cid = "C09-init-%d%d-%d" % (a, b, n)
            cases.append({"cid": cid, "w": "WRi", "val": ri, "ord": ORDS[n % 4], "trail": [], "mut": "none"})
            plans[cid] = ("TRi", "required-init")
            n += 1
            cid = "C09-initn-%d%d-%d" % (a, b, n)
            cases.append({"cid": cid, "w": "WRiN", "val": {"f": {"1": {"nil": False, "items": [{"p": 1, "v": ri}]}, "2": {"p": 1, "v": ri}}, "unk": []},
                          "ord": ORDS[n % 4], "trail": [], "mut": "none"})
            plans[cid] = ("TRiN", "required-init-nested")
    # thrift-tag-only reader: every subset of its two required fields
    for a in (0, 1):
        for b in (0, 1):
            n += 1
            cid = "C09-thr-%d%d-%d" % (a, b, n)
            cases.append({"cid": cid, "w": "WLeaf", "val": {"f": {"1": {"p": 1, "v": [0, 0, 0, 5]} if a else {"p": 0}, "64": {"p": 1, "v": list(b"x")} if b else {"p": 0}}, "unk": []},
                          "ord": ORDS[n % 4], "trail": [], "mut": "none"})
            plans[cid] = ("TThr", "thrift-tags-only")
    # list / set confusion: the writer's set arrives where the reader requires a list (and the other way round)
    for a in (0, 1):
        n += 1
        cid = "C09-listset-%d" % n
        cases.append({"cid": cid, "w": "WLs", "val": {"f": {"1": {"nil": False, "items": [[0, 0, 0, 1], [0, 0, 0, 2]] if a else []},
                                                            "2": {"nil": False, "items": [list(b"a")] if a else []}, "3": [0, 0, 0, 3]}, "unk": []},
                      "ord": ORDS[n % 4], "trail": [], "mut": "none"})
        plans[cid] = ("TLsR", "listset-required")
    # one field written twice and another one left out: a duplicate never stands in for a missing field
    dupcases = []
    full = {"f": {str(i): {"p": 1, "v": U.be(i + 7, 4)} for i in ids}, "unk": []}
    dupcases.append({"cid": "C09-dup-all", "w": "WIds", "val": full, "ord": "asc", "trail": [], "mut": "dupdrop"})
    few = [ids[0], ids[3], ids[5]] if len(ids) > 5 else ids
    dupcases.append({"cid": "C09-dup-ri", "w": "WRi", "val": {"f": {"1": {"p": 1, "v": [0, 0, 0, 7]}, "2": {"p": 1, "v": list(b"r")}, "3": {"p": 1, "v": [0] * 8}}, "unk": []},
                     "ord": "asc", "trail": [], "mut": "dupdrop"})
    leafv = {"f": {"1": {"p": 1, "v": [0, 0, 0, 5]}, "64": {"p": 1, "v": list(b"x")}}, "unk": []}
    dupcases.append({"cid": "C09-dup-leaf", "w": "WLeaf", "val": leafv, "ord": "asc", "trail": [], "mut": "dupdrop"})
    msgs, st = vlib.gen_messages(work, defs_path, cases + dupcases)
    res.tlc_states += st.get("distinct", 0)
    res.tlc_transitions += st.get("generated", 0)
    scen = []
    dupreaders = {"C09-dup-all": ["TReqAll", "TReq64", "TReq%d" % ids[-1]], "C09-dup-ri": ["TRi"], "C09-dup-leaf": ["TLeafR"]}
    for dc in dupcases:
        for t in dupreaders[dc["cid"]]:
            ms = msgs[dc["cid"]]
            if quick and len(ms) > 120:
                import random as _r
                ms = _r.Random(7).sample(ms, 120)
            steps = [{"op": "decode", "ty": t, "in": m, "dest": "fresh"} for m in ms]
            sid = "%s-%s" % (dc["cid"], t)
            scen.append({"sid": sid, "prop": prop, "vals": [], "steps": steps, "tags": ["dupdrop"], "dkey": sid})
    allmsg = {}
    for cid, (t, label) in plans.items():
        allmsg.setdefault(t, []).append(msgs[cid][0])
    k = 0
    for cid, (t, label) in plans.items():
        k += 1
        m = msgs[cid][0]
        steps = []
        if k % 3 == 0:
            # a predecessor decode of the same type that sets every presence bit
            steps.append({"op": "decode", "ty": t, "in": allmsg[t][0], "dest": "fresh"})
        elif k % 3 == 1 and len(allmsg[t]) > 2:
            # predecessors of the same type that were REJECTED (they carried some required ids and lacked others)
            steps.append({"op": "decode", "ty": t, "in": allmsg[t][(k // 3) % len(allmsg[t])], "dest": "fresh"})
            steps.append({"op": "decode", "ty": t, "in": allmsg[t][(k // 3 + 1) % len(allmsg[t])], "dest": "fresh"})
        steps.append({"op": "decode", "ty": t, "in": m, "dest": "fresh"})
        scen.append({"sid": cid, "prop": prop, "vals": [], "steps": steps, "tags": [label], "dkey": cid})
    return [Batch("required", defs, scen), required_encode_batch(prop, quick)]


def required_encode_batch(prop, quick):
    """the encoder writes every required field, also when it holds a zero or nil value (all kinds, top level and nested,
    ids on both sides of presence-set words)"""
    import checks_codec
    T, L, SET, M, ST, field, struct = U.T, U.L, U.SET, U.M, U.ST, U.field, U.struct
    defs = U.leaf_structs()
    kinds = [T(k) for k in U.SCALARS] + [T("binary"), L(T("i32")), SET(T("string")), M(T("string"), T("i32")), ST("Leaf", True), ST("Leaf", False),
                                         L(ST("Leaf", True)), M(T("i32"), ST("Leaf", True)), L(L(T("i16"))), ST("LeafUnk", True),
                                         ST("Ack", True), ST("Ack", False), L(ST("Ack", True))]
    defs["Ack"] = struct([])          # a struct with no fields at all: on the wire just STOP, but it is there
    ids = [0, 1, 63, 64, 65, 127, 128, 255, 256, 1023, 1024, 4095, 4096, 32767, 32768, 40000, 65534, 65535, 2, 3, 4, 5, 6, 7, 8, 9, 10]
    defs["ReqAll"] = struct([field(ids[j], "required", t) for j, t in enumerate(kinds)])
    defs["ReqAllN"] = struct([field(1, "required", ST("ReqAll", True)), field(2, "required", ST("ReqAll", False)), field(3, "required", L(ST("ReqAll", True))),
                              field(4, "default", M(T("string"), ST("ReqAll", True))), field(5, "optional", ST("ReqAll", True))])
    # required next to optional / default fields of the same kinds (only the required ones are unconditional)
    mixed = []
    for j, t in enumerate(kinds[:12]):
        mixed.append(field(3 * j + 1, "required", t))
        opt = dict(t, ptr=True) if t["k"] in U.SCALARS else t
        mixed.append(field(3 * j + 2, "optional", opt))
        mixed.append(field(3 * j + 3, "default", t))
    defs["ReqMixed"] = struct(mixed)
    U.with_defaults(defs)
    scen = []
    for s in ("ReqAll", "ReqAllN", "ReqMixed"):
        for label, v in U.struct_variants(s, defs, [0, 1, 2], [0, 1, 4]):
            if quick and not (label in ("base", "zero") or label.endswith("=0") or label.endswith("=1")):
                continue
            tags = checks_codec.struct_tags(s, v, defs)
            steps = [{"op": "size", "ty": s, "v": 0}, {"op": "encode", "ty": s, "v": 0, "buf": {"mode": "rel", "n": 0, "extra": 0}},
                     {"op": "encode", "ty": s, "v": 0, "byval": True, "buf": {"mode": "rel", "n": 0, "extra": 0}}]
            if "nil_struct_with_required_fields" not in tags:
                steps.append({"op": "decode", "ty": s, "from": 1, "dest": "fresh", "orig": 0})
            sid = "C09-enc-%s-%s" % (s, label)
            scen.append({"sid": sid, "prop": prop, "vals": [v], "steps": steps, "tags": tags + ["encoder"], "dkey": sid})
    return Batch("required-encode", defs, scen)


# ---- C10 -------------------------------------------------------------------------------------
def defaults_universe():
    uf = U.universe_fields()
    defs = {k: uf[k] for k in ("Leaf", "LeafReq", "LeafUnk", "Fix", "Defaults", "DefNc", "DefNcN", "OptVal")}
    # a type with declared defaults that contains itself by value (its own descriptor is still being built when it is met again)
    dr2 = U.struct([U.field(1, "optional", U.T("i32")), U.field(2, "optional", U.T("string")), U.field(3, "default", U.L(U.ST("DefRec", False))),
                    U.field(4, "default", U.M(U.T("string"), U.ST("DefRec", False))), U.field(5, "optional", U.ST("DefRec", True))], init=True)
    dr2["fields"][0]["def"] = [0, 0, 0, 5]
    dr2["fields"][1]["def"] = list(b"rec")
    defs["DefRec"] = dr2
    defs["WDefRec"] = U.struct([U.field(1, "optional", U.T("i32", True)), U.field(2, "optional", U.T("string", True)), U.field(3, "default", U.L(U.ST("WDefRec", False))),
                                U.field(4, "default", U.M(U.T("string"), U.ST("WDefRec", False))), U.field(5, "optional", U.ST("WDefRec", True))])
    # struct types without fields: a pointer to one is non-nil exactly when the message carried it
    defs["Ack"] = U.struct([])
    defs["AckHolder"] = U.struct([U.field(1, "optional", U.ST("Ack", True)), U.field(2, "default", U.ST("Ack", True)), U.field(3, "default", U.ST("Ack", False)),
                                  U.field(4, "default", U.L(U.ST("Ack", True))), U.field(5, "optional", U.M(U.T("string"), U.ST("Ack", True))), U.field(6, "default", U.T("i32"))])
    # the same type with its fields declared in another order / with untagged members in front (defaults belong to ids)
    import copy as _copy
    for nm, decl in (("DefaultsR", "rev"), ("DefaultsS", "shuf")):
        defs[nm] = _copy.deepcopy(uf["Defaults"])
        defs[nm]["decl"] = decl
        defs[nm]["fields"][2]["before"] = ["Untagged int64", "hidden string"]
    # writers: everything optional by pointer so that any subset can be omitted on the wire
    dfl = defs["Defaults"]["fields"]
    wf = []
    for f in dfl:
        t = dict(f["t"])
        if t["k"] in U.SCALARS:
            t = dict(t, ptr=True)
        wf.append(U.field(f["id"], "optional", t))
    defs["WDefaults"] = U.struct(wf)
    defs["DNest"] = U.struct([U.field(1, "default", U.ST("Defaults", True)), U.field(2, "default", U.ST("Defaults", False)),
                              U.field(3, "default", U.L(U.ST("Defaults", True))), U.field(4, "default", U.M(U.T("string"), U.ST("Defaults", True))),
                              U.field(5, "optional", U.ST("Defaults", True)), U.field(6, "default", U.L(U.ST("Defaults", False))),
                              U.field(7, "default", U.M(U.T("i32"), U.ST("Defaults", False)))], init=False)
    defs["WDNest"] = U.struct([U.field(1, "default", U.ST("WDefaults", True)), U.field(2, "default", U.ST("WDefaults", False)),
                               U.field(3, "default", U.L(U.ST("WDefaults", True))), U.field(4, "default", U.M(U.T("string"), U.ST("WDefaults", True))),
                               U.field(5, "optional", U.ST("WDefaults", True)), U.field(6, "default", U.L(U.ST("WDefaults", False))),
                               U.field(7, "default", U.M(U.T("i32"), U.ST("WDefaults", False)))])
    # top-level type with declared defaults and an optional pointer
    defs["DTop"] = U.struct([U.field(1, "optional", U.T("i32")), U.field(2, "optional", U.T("string")),
                             U.field(3, "optional", U.T("i64", True)), U.field(4, "default", U.T("double")),
                             U.field(5, "optional", U.ST("Defaults", True))], init=True)
    defs["DTop"]["fields"][0]["def"] = [0, 0, 0, 5]
    defs["DTop"]["fields"][1]["def"] = list(b"top")
    defs["DTop"]["fields"][3]["def"] = [64, 9, 33, 251, 84, 68, 45, 24]
    # a writer that sends other wire types at the ids of DTop's optional pointer fields: they stay nil
    defs["WDTopX"] = U.struct([U.field(1, "optional", U.T("i32", True)), U.field(3, "default", U.T("string")), U.field(5, "default", U.T("i32")),
                               U.field(4, "optional", U.T("double", True))])
    # declared defaults only on default / required fields; the optional fields are all pointers
    dr = U.struct([U.field(1, "default", U.T("i32")), U.field(2, "default", U.T("string")), U.field(3, "required", U.T("i64")),
                   U.field(4, "optional", U.T("i16", True)), U.field(5, "optional", U.ST("Leaf", True))], init=True)
    dr["fields"][0]["def"] = [0, 0, 0, 42]
    dr["fields"][1]["def"] = list(b"dd")
    dr["fields"][2]["def"] = [0] * 7 + [3]
    defs["DefReq"] = dr
    defs["WDefReq"] = U.struct([U.field(1, "optional", U.T("i32", True)), U.field(2, "optional", U.T("string", True)), U.field(3, "default", U.T("i64")),
                                U.field(4, "optional", U.T("i16", True))])
    defs["DRN"] = U.struct([U.field(1, "default", U.ST("DefReq", True)), U.field(2, "default", U.L(U.ST("DefReq", True))),
                            U.field(3, "default", U.M(U.T("string"), U.ST("DefReq", False))), U.field(4, "default", U.ST("DefReq", False))])
    defs["WDRN"] = U.struct([U.field(1, "default", U.ST("WDefReq", True)), U.field(2, "default", U.L(U.ST("WDefReq", True))),
                             U.field(3, "default", U.M(U.T("string"), U.ST("WDefReq", False))), U.field(4, "default", U.ST("WDefReq", False))])
    return U.with_defaults(defs)


def defaults_batches(prop, tier, seed, work, res, quick, rng):
    import checks_codec
    defs = defaults_universe()
    defs_path = vlib.write_defs(work, defs)
    scen = []
    # (1) encoder: presence of optional fields for values equal / different from the default
    for s in ("DefRec", "Defaults", "DNest", "DTop", "DefNc", "DefNcN", "DefaultsR", "DefaultsS", "OptVal", "AckHolder"):
        sizes = [0, 1, 2] if quick else [0, 1, 2, 9]
        for salt in ((0,) if quick else (0, 1, 2)):
            for label, v in U.struct_variants(s, defs, sizes, [0, 1, 4], salt):
                sid = "C10-enc-%s-%s-%d" % (s, label, salt)
                scen.append({"sid": sid, "prop": prop, "vals": [v], "tags": checks_codec.struct_tags(s, v, defs), "dkey": sid,
                             "steps": [{"op": "size", "ty": s, "v": 0}, {"op": "encode", "ty": s, "v": 0, "buf": {"mode": "rel", "n": 0, "extra": 0}},
                                       {"op": "decode", "ty": s, "from": 1, "dest": "fresh", "orig": 0}]})
        # values exactly equal to the declared defaults, field by field
        d = U.default_struct(s, defs)
        sid = "C10-enc-%s-alldefault" % s
        scen.append({"sid": sid, "prop": prop, "vals": [d], "tags": [], "dkey": sid,
                     "steps": [{"op": "size", "ty": s, "v": 0}, {"op": "encode", "ty": s, "v": 0, "buf": {"mode": "rel", "n": 0, "extra": 0}},
                               {"op": "decode", "ty": s, "from": 1, "dest": "fresh", "orig": 0}]})
    # (2) decoder: messages omitting subsets of fields, into fresh / zero / populated destinations
    cases, plans = [], {}
    n = 0
    wbase = U.base_value({"k": "struct", "ptr": False, "s": "WDefaults"}, defs, 2, 1)
    keys = [f["key"] for f in defs["WDefaults"]["fields"]]

    def omit(v, ks):
        nv = {"f": dict(v["f"]), "unk": []}
        for k in ks:
            nv["f"][k] = U.zero(next(f for f in defs["WDefaults"]["fields"] if f["key"] == k)["t"], defs)
        return nv
    subsets = [[], keys] + [[k] for k in keys] + [[k for k in keys if k != kk] for kk in keys[::3]]
    for sub in subsets:
        n += 1
        cid = "C10-dec-top-%d" % n
        cases.append({"cid": cid, "w": "WDefaults", "val": omit(wbase, sub), "ord": ORDS[n % 4], "trail": [], "mut": "none"})
        plans[cid] = ("Defaults", n)
        plans[cid + "|R"] = ("DefaultsR" if n % 2 else "DefaultsS", n)
        inner = omit(wbase, sub)
        wn = {"f": {"1": {"p": 1, "v": inner}, "2": inner, "3": {"nil": False, "items": [{"p": 1, "v": inner}, {"p": 1, "v": wbase}]},
                    "4": {"nil": False, "ents": [[list(b"k"), {"p": 1, "v": inner}]]}, "5": {"p": 1, "v": inner},
                    "6": {"nil": False, "items": [inner, wbase, inner]},
                    "7": {"nil": False, "ents": [[[0, 0, 0, 1], wbase], [[0, 0, 0, 2], inner]]}}, "unk": []}
        cid = "C10-dec-nest-%d" % n
        cases.append({"cid": cid, "w": "WDNest", "val": wn, "ord": ORDS[n % 4], "trail": [], "mut": "none"})
        plans[cid] = ("DNest", n)
    # the self-containing type: nested values that omit their defaulted fields (the root is decoded FIRST in this batch)
    sparse = lambda kids: {"f": {"1": {"p": 0}, "2": {"p": 0}, "3": {"nil": False, "items": kids}, "4": {"nil": False, "ents": [[list(b"k%d" % j), x] for j, x in enumerate(kids)]},
                                 "5": {"p": 0}}, "unk": []}
    leafv = {"f": {"1": {"p": 0}, "2": {"p": 1, "v": list(b"x")}, "3": {"nil": False, "items": []}, "4": {"nil": False, "ents": []}, "5": {"p": 0}}, "unk": []}
    for a in range(2):
        n += 1
        cid = "C10-dec-rec-%d" % n
        cases.append({"cid": cid, "w": "WDefRec", "val": sparse([sparse([leafv]), leafv] if a else [leafv, sparse([])]), "ord": ORDS[n % 4], "trail": [], "mut": "none"})
        plans[cid] = ("DefRec", n)
    # other wire types at the ids of optional pointer fields
    for a in (0, 1):
        n += 1
        cid = "C10-dec-ptrmismatch-%d" % n
        cases.append({"cid": cid, "w": "WDTopX", "val": {"f": {"1": {"p": 1, "v": [0, 0, 0, 8]} if a else {"p": 0}, "3": list(b"str"), "5": [0, 0, 0, 9],
                                                              "4": {"p": 1, "v": [0] * 8}}, "unk": []}, "ord": ORDS[n % 4], "trail": [], "mut": "none"})
        plans[cid] = ("DTop", n)
    # nested structs whose declared defaults sit on default / required fields
    for a in (0, 1):
        for b in (0, 1):
            wv = {"f": {"1": {"p": 1, "v": [0, 0, 0, 7]} if a else {"p": 0}, "2": {"p": 1, "v": list(b"x")} if b else {"p": 0}, "3": [0] * 7 + [1], "4": {"p": 0}}, "unk": []}
            wfull = {"f": {"1": {"p": 1, "v": [0, 0, 0, 9]}, "2": {"p": 1, "v": list(b"full")}, "3": [0] * 7 + [2], "4": {"p": 1, "v": [0, 5]}}, "unk": []}
            n += 1
            cid = "C10-dec-defreq-%d" % n
            cases.append({"cid": cid, "w": "WDRN", "val": {"f": {"1": {"p": 1, "v": wv}, "2": {"nil": False, "items": [{"p": 1, "v": wfull}, {"p": 1, "v": wv}]},
                                                               "3": {"nil": False, "ents": [[list(b"a"), wfull], [list(b"b"), wv]]}, "4": wv}, "unk": []},
                          "ord": ORDS[n % 4], "trail": [], "mut": "none"})
            plans[cid] = ("DRN", n)
    msgs, st = vlib.gen_messages(work, defs_path, cases)
    res.tlc_states += st.get("distinct", 0)
    res.tlc_transitions += st.get("generated", 0)
    for cid, (t, n) in plans.items():
        for dest in ("fresh", "zero", "val"):
            sc = decode_scenario(prop, cid + "-" + dest, t, msgs[cid.split("|")[0]][0], dest, defs, label="defaults")
            scen.append(sc)
    scen.sort(key=lambda sc: 0 if "dec-rec" in sc["sid"] else 1)       # the self-containing type is first used as the root of a build
    return [Batch("defaults", defs, scen)]
